//! Family `dash` (C20 part B): the Shuttle replacement of DashMap / DashSet against a plain map.
//!
//! Sequential specification = an ordinary map (kept as a sorted vector).  The replacement takes ONE
//! reader/writer lock per operation and per guard (`Ref` = shared, `RefMut` / entry = exclusive), so
//! the model is `{map, readers, writer}`: every operation is "take the lock (shared / exclusive) —
//! perform the whole map operation — give the lock back", guards keep the lock until dropped.
//! Co-simulating every execution on this model is a linearizability check of the call/return
//! history against the sequential map in which the linearization point lies inside the window in
//! which the operation holds the lock; real-time order is enforced by the step stamps.
//!
//! Recursive shared access by one thread (an operation that only reads, issued while the same thread
//! holds a `Ref`) is legal with the real dashmap (its shard lock admits recursive readers).  The
//! replacement panics there ("tried to acquire a RwLock it already holds"): that is encoded as the
//! weakened model `read-operation-while-the-same-thread-holds-a-Ref-panics`.  Operations that need
//! exclusive access while the thread itself holds a guard self-deadlock in the real dashmap too and
//! are kept out of the programs.
//!
//! The alphabet covers every public operation of `DashMap` / `DashSet` that touches the map (see the
//! table at B5 in `program_set`): closures passed to the operations have data-dependent behaviour
//! (predicates on the current value, deltas added to it), so that an implementation that evaluates
//! under one lock acquisition and writes under another produces a result or final contents that no
//! linear order of the operations explains.  `try_*` operations never block: the model answers
//! `Locked` exactly when the lock cannot be had in the requested mode and leaves the state unchanged.
//! The implementation has no `RefMut::downgrade` (real dashmap has): nothing to exercise there.

use shuttle_dashmap_impl::{DashMap, DashSet};
use vx::prog::*;

#[derive(Clone, Debug, PartialEq, Eq, Hash)]
pub enum DOp {
    Insert(u8, u32),
    /// get(k) and read the value, guard dropped at once
    Get(u8),
    /// get(k), keep the `Ref`
    GetHold(u8),
    /// get_mut(k), keep the `RefMut`
    GetMutHold(u8),
    /// entry(k).or_insert(v), keep the `RefMut`
    EntryHold(u8, u32),
    /// write through the held `RefMut`
    SetHeld(u32),
    /// read through the held guard
    ReadHeld,
    DropHeld,
    Remove(u8),
    /// *entry(k).or_insert(v)
    EntryOrInsert(u8, u32),
    /// alter(k, |_, v| v + d)
    Alter(u8, u32),
    ContainsKey(u8),
    Iter,
    Len,
    Clear,
    /// remove_if(k, |_, v| v < th)
    RemoveIf(u8, u32),
    /// remove_if_mut(k, |_, v| { old = v; v += d; old < th })
    RemoveIfMut(u8, u32, u32),
    /// retain(|_, v| if v < th { v += d; true } else { false })
    Retain(u32, u32),
    /// alter_all(|_, v| v + d)
    AlterAll(u32),
    /// view(k, |k, v| 2 * v + k + 1)
    View(u8),
    /// try_get(k), read, drop
    TryGet(u8),
    /// try_get(k), keep the `Ref` when Present
    TryGetHold(u8),
    /// try_get_mut(k): `*r += d`, drop; answers the old value
    TryGetMut(u8, u32),
    /// try_get_mut(k), keep the `RefMut` when Present
    TryGetMutHold(u8),
    /// try_entry(k).map(|e| *e.or_insert(v))
    TryEntry(u8, u32),
    /// try_entry(k), keep the `Entry` (occupied -> Present(value), vacant -> Absent; both keep the lock)
    TryEntryHold(u8),
    /// entry(k), keep the `Entry`
    TakeEntry(u8),
    /// consume the held `Entry`: occupied -> first action, vacant -> second; every guard that results
    /// is dropped before the operation returns
    ActHeld(OccAct, VacAct),
    /// entry(k) and act on it at once
    EntryDo(u8, OccAct, VacAct),
    /// *entry(k).and_modify(|v| v += d).or_insert(v)
    EntryAndModify(u8, u32, u32),
    /// *entry(k).or_default()
    EntryOrDefault(u8),
    /// *entry(k).or_insert_with(|| v)
    EntryOrInsertWith(u8, u32),
    /// *entry(k).or_insert_with_key(|k| v + k)
    EntryOrInsertWithKey(u8, u32),
    /// get_mut(k): `*r += d`, guard dropped at once; answers the old value
    GetMut(u8, u32),
    /// for r in iter_mut() { r += d }; answers the old contents
    IterMut(u32),
    IsEmpty,
    ShrinkToFit,
    Capacity,
    /// map.clone() (shared lock), then the clone's contents
    CloneMap,
    /// `value_mut() += d` through the held `RefMut`
    AddHeld(u32),
    /// key()/value()/pair() of the held guard
    ReadHeldPair,
    // DashSet
    SInsert(u8),
    SRemove(u8),
    SContains(u8),
    SGetHold(u8),
    SDropHeld,
    SIter,
    SLen,
    SClear,
    /// remove_if(k, |k| k < th)
    SRemoveIf(u8, u8),
    /// retain(|k| k < th)
    SRetain(u8),
    SIsEmpty,
    SShrinkToFit,
    SCapacity,
}

/// what to do with an `OccupiedEntry`
#[derive(Clone, Debug, PartialEq, Eq, Hash)]
pub enum OccAct {
    /// *get()
    Get,
    /// *get_mut() += d; answers the new value
    GetMut(u32),
    /// insert(v): answers the old value
    Insert(u32),
    Remove,
    RemoveEntry,
    /// replace_entry(v): answers the old value
    ReplaceEntry(u32),
    /// replace_entry_with(|_, v| if v < th { Some(v + d) } else { None }): answers what the returned entry holds
    ReplaceWith(u32, u32),
    /// into_ref(): answers the old value, then `+= d` through the RefMut
    IntoRef(u32),
    IntoKey,
}

/// what to do with a `VacantEntry`
#[derive(Clone, Debug, PartialEq, Eq, Hash)]
pub enum VacAct {
    /// into_key()
    Leave,
    /// insert(v) -> RefMut
    Insert(u32),
    /// insert_entry(v) -> OccupiedEntry
    InsertEntry(u32),
}

#[derive(Clone, Debug, PartialEq, Eq, Hash, PartialOrd, Ord)]
pub enum TryR {
    Present(u32),
    Absent,
    Locked,
}

#[derive(Clone, Debug, PartialEq, Eq, Hash, PartialOrd, Ord)]
pub enum DRes {
    Unit,
    Nothing,
    Opt(Option<u32>),
    Bool(bool),
    Num(usize),
    List(Vec<(u8, u32)>),
    Try(TryR),
    /// (entry was occupied, value answered by the action)
    Ent(bool, Option<u32>),
}

#[derive(Clone, Debug)]
pub struct DCfg {
    /// the weakened model (recursive shared access panics) applies to this program
    pub reentrant: bool,
}

pub struct DObjs {
    map: DashMap<u8, u32>,
    set: DashSet<u8>,
}

type MRef = shuttle_dashmap_impl::mapref::one::Ref<'static, u8, u32>;
type MRefMut = shuttle_dashmap_impl::mapref::one::RefMut<'static, u8, u32>;
type MEntry = shuttle_dashmap_impl::mapref::entry::Entry<'static, u8, u32>;
type SRef = shuttle_dashmap_impl::setref::one::Ref<'static, u8>;

pub enum DHeld {
    None,
    R(MRef),
    W(MRefMut),
    E(MEntry),
}

/// kind of guard a thread keeps (model)
#[derive(Clone, Copy, Debug, PartialEq, Eq, Hash)]
pub enum HK {
    R,
    W,
    E,
}

pub struct DLocals {
    h: DHeld,
    sh: Option<SRef>,
}

#[derive(Clone, Debug, PartialEq, Eq, Hash)]
pub struct MapM {
    kv: Vec<(u8, u32)>,
    /// shared holders (a thread may appear twice: its guard + a read operation in progress)
    readers: Vec<u8>,
    writer: Option<u8>,
    /// key behind the guard a thread keeps (thread, key, kind of guard)
    held: Vec<(u8, u8, HK)>,
    /// private copies taken by `clone()` whose owner has not looked at them yet (thread, contents)
    snaps: Vec<(u8, Vec<(u8, u32)>)>,
}

impl MapM {
    fn get(&self, k: u8) -> Option<u32> {
        self.kv.iter().find(|e| e.0 == k).map(|e| e.1)
    }
    fn put(&mut self, k: u8, v: u32) -> Option<u32> {
        let old = self.del(k);
        self.kv.push((k, v));
        self.kv.sort();
        old
    }
    fn del(&mut self, k: u8) -> Option<u32> {
        let p = self.kv.iter().position(|e| e.0 == k)?;
        Some(self.kv.remove(p).1)
    }
    fn can_read(&self) -> bool {
        self.writer.is_none()
    }
    fn can_write(&self) -> bool {
        self.writer.is_none() && self.readers.is_empty()
    }
    fn add_reader(&mut self, t: u8) {
        self.readers.push(t);
        self.readers.sort();
    }
    fn rm_reader(&mut self, t: u8) {
        let p = self.readers.iter().position(|r| *r == t).expect("model: reader to remove");
        self.readers.remove(p);
    }
}

#[derive(Clone, Debug, PartialEq, Eq, Hash)]
pub struct DM {
    map: MapM,
    set: MapM,
    reentrant: bool,
}

pub struct DashFam;

pub const REENTRANT_NAME: &str = "read-operation-while-the-same-thread-holds-a-Ref-panics";
const REENTRANT_PANIC: &str = "tried to acquire a RwLock it already holds";

unsafe fn ext<'a, T>(r: &'a T) -> &'static T {
    std::mem::transmute(r)
}

type Steps = Vec<MStep<DM, DRes>>;

#[derive(Clone, Copy, PartialEq)]
enum Which {
    Map,
    Set,
}

impl DashFam {
    /// "lock shared; f; unlock" — phase 0 takes the lock, phase 1 performs the read and gives it back
    fn read_op(m: &DM, w: Which, t: u8, phase: u8, f: impl Fn(&MapM) -> DRes) -> Steps {
        let mut n = m.clone();
        let x = if w == Which::Map { &mut n.map } else { &mut n.set };
        if phase == 0 {
            if weak() && m.reentrant && x.readers.contains(&t) {
                return vec![MStep::Panic(REENTRANT_PANIC.into())];
            }
            if !x.can_read() {
                return vec![];
            }
            x.add_reader(t);
            vec![MStep::Cont(n, 1)]
        } else {
            let r = f(x);
            x.rm_reader(t);
            vec![MStep::Done(n, r)]
        }
    }
    fn write_op(m: &DM, w: Which, t: u8, phase: u8, f: impl Fn(&mut MapM) -> DRes) -> Steps {
        let mut n = m.clone();
        let x = if w == Which::Map { &mut n.map } else { &mut n.set };
        if phase == 0 {
            if !x.can_write() {
                return vec![];
            }
            x.writer = Some(t);
            vec![MStep::Cont(n, 1)]
        } else {
            let r = f(x);
            x.writer = None;
            vec![MStep::Done(n, r)]
        }
    }
}

impl DashFam {
    fn sel(n: &mut DM, w: Which) -> &mut MapM {
        if w == Which::Map {
            &mut n.map
        } else {
            &mut n.set
        }
    }
    /// try-lock shared, `f`, unlock.  `Locked` (state untouched) iff a writer holds the lock.
    fn try_read_op(m: &DM, w: Which, t: u8, phase: u8, f: impl Fn(&MapM) -> TryR) -> Steps {
        let mut n = m.clone();
        let x = Self::sel(&mut n, w);
        if phase == 0 {
            if (weak() && m.reentrant && x.readers.contains(&t)) || !x.can_read() {
                return vec![MStep::Done(m.clone(), DRes::Try(TryR::Locked))];
            }
            x.add_reader(t);
            vec![MStep::Cont(n, 1)]
        } else {
            let r = f(x);
            x.rm_reader(t);
            vec![MStep::Done(n, DRes::Try(r))]
        }
    }
    /// try-lock exclusive, `f`, unlock.  `Locked` (state untouched) iff anybody holds the lock.
    fn try_write_op(m: &DM, w: Which, t: u8, phase: u8, f: impl Fn(&mut MapM) -> TryR) -> Steps {
        let mut n = m.clone();
        let x = Self::sel(&mut n, w);
        if phase == 0 {
            if !x.can_write() {
                return vec![MStep::Done(m.clone(), DRes::Try(TryR::Locked))];
            }
            x.writer = Some(t);
            vec![MStep::Cont(n, 1)]
        } else {
            let r = f(x);
            x.writer = None;
            vec![MStep::Done(n, DRes::Try(r))]
        }
    }
    /// the sequential meaning of an action on `entry(k)`
    fn entry_act(x: &mut MapM, k: u8, oa: &OccAct, va: &VacAct) -> DRes {
        match x.get(k) {
            Some(v) => {
                let r = match oa {
                    OccAct::Get => Some(v),
                    OccAct::GetMut(d) => {
                        x.put(k, v + *d);
                        Some(v + *d)
                    }
                    OccAct::Insert(nv) | OccAct::ReplaceEntry(nv) => {
                        x.put(k, *nv);
                        Some(v)
                    }
                    OccAct::Remove | OccAct::RemoveEntry => {
                        x.del(k);
                        Some(v)
                    }
                    OccAct::ReplaceWith(th, d) => {
                        if v < *th {
                            x.put(k, v + *d);
                            Some(v + *d)
                        } else {
                            x.del(k);
                            None
                        }
                    }
                    OccAct::IntoRef(d) => {
                        x.put(k, v + *d);
                        Some(v)
                    }
                    OccAct::IntoKey => None,
                };
                DRes::Ent(true, r)
            }
            None => {
                let r = match va {
                    VacAct::Leave => None,
                    VacAct::Insert(nv) | VacAct::InsertEntry(nv) => {
                        x.put(k, *nv);
                        Some(*nv)
                    }
                };
                DRes::Ent(false, r)
            }
        }
    }
}

/// the real thing: consume the entry, every guard is gone when this returns
fn do_entry(e: MEntry, oa: &OccAct, va: &VacAct) -> DRes {
    use shuttle_dashmap_impl::mapref::entry::Entry;
    let k = *e.key();
    match e {
        Entry::Occupied(mut o) => {
            assert_eq!(*o.key(), k, "OccupiedEntry::key");
            let r = match oa {
                OccAct::Get => Some(*o.get()),
                OccAct::GetMut(d) => {
                    *o.get_mut() += *d;
                    Some(*o.get())
                }
                OccAct::Insert(v) => Some(o.insert(*v)),
                OccAct::Remove => Some(o.remove()),
                OccAct::RemoveEntry => {
                    let (k2, v) = o.remove_entry();
                    assert_eq!(k2, k, "remove_entry key");
                    Some(v)
                }
                OccAct::ReplaceEntry(v) => {
                    let (k2, old) = o.replace_entry(*v);
                    assert_eq!(k2, k, "replace_entry key");
                    Some(old)
                }
                OccAct::ReplaceWith(th, d) => match o.replace_entry_with(|k2, v| {
                    assert_eq!(*k2, k, "replace_entry_with key");
                    if v < *th {
                        Some(v + *d)
                    } else {
                        None
                    }
                }) {
                    Entry::Occupied(o2) => Some(*o2.get()),
                    Entry::Vacant(v2) => {
                        assert_eq!(v2.into_key(), k, "VacantEntry::into_key");
                        None
                    }
                },
                OccAct::IntoRef(d) => {
                    let mut r = o.into_ref();
                    let old = *r;
                    *r.value_mut() += *d;
                    assert_eq!(*r.key(), k, "RefMut::key");
                    Some(old)
                }
                OccAct::IntoKey => {
                    assert_eq!(o.into_key(), k, "OccupiedEntry::into_key");
                    None
                }
            };
            DRes::Ent(true, r)
        }
        Entry::Vacant(v) => {
            assert_eq!(*v.key(), k, "VacantEntry::key");
            let r = match va {
                VacAct::Leave => {
                    assert_eq!(v.into_key(), k, "VacantEntry::into_key");
                    None
                }
                VacAct::Insert(nv) => {
                    let r = v.insert(*nv);
                    assert_eq!(r.pair(), (&k, nv), "RefMut::pair");
                    Some(*r.value())
                }
                VacAct::InsertEntry(nv) => {
                    let o = v.insert_entry(*nv);
                    assert_eq!(*o.key(), k, "OccupiedEntry::key");
                    Some(*o.get())
                }
            };
            DRes::Ent(false, r)
        }
    }
}

fn try_class<R>(r: &shuttle_dashmap_impl::try_result::TryResult<R>) -> u8 {
    // exactly one of the three predicates holds
    let (p, a, l) = (r.is_present(), r.is_absent(), r.is_locked());
    assert_eq!(p as u8 + a as u8 + l as u8, 1, "TryResult predicates");
    if p {
        0
    } else if a {
        1
    } else {
        2
    }
}

impl Family for DashFam {
    type Op = DOp;
    type Res = DRes;
    type Cfg = DCfg;
    type Objs = DObjs;
    type Locals = DLocals;
    type M = DM;
    const NAME: &'static str = "dash";

    fn make_objs(_c: &DCfg, _n: usize) -> DObjs {
        DObjs {
            map: DashMap::new(),
            set: DashSet::new(),
        }
    }
    fn new_locals(_c: &DCfg, _t: usize) -> DLocals {
        DLocals { h: DHeld::None, sh: None }
    }
    fn end_thread(_o: &DObjs, l: DLocals, _t: usize) {
        std::mem::forget(l.h);
        std::mem::forget(l.sh);
    }
    fn weakening(cfg: &DCfg) -> Option<&'static str> {
        if cfg.reentrant {
            Some(REENTRANT_NAME)
        } else {
            None
        }
    }
    fn objects_of(op: &DOp) -> Vec<u32> {
        match op {
            DOp::SInsert(_)
            | DOp::SRemove(_)
            | DOp::SContains(_)
            | DOp::SGetHold(_)
            | DOp::SDropHeld
            | DOp::SIter
            | DOp::SLen
            | DOp::SClear
            | DOp::SRemoveIf(..)
            | DOp::SRetain(_)
            | DOp::SIsEmpty
            | DOp::SShrinkToFit
            | DOp::SCapacity => vec![0x801],
            _ => vec![0x800],
        }
    }

    fn exec(o: &DObjs, l: &mut DLocals, _t: usize, op: &DOp) -> DRes {
        let map: &'static DashMap<u8, u32> = unsafe { ext(&o.map) };
        let set: &'static DashSet<u8> = unsafe { ext(&o.set) };
        match op {
            DOp::Insert(k, v) => DRes::Opt(map.insert(*k, *v)),
            DOp::Get(k) => DRes::Opt(map.get(k).map(|r| *r)),
            DOp::GetHold(k) => {
                assert!(matches!(l.h, DHeld::None), "ill-formed program");
                match map.get(k) {
                    Some(r) => {
                        let v = *r;
                        l.h = DHeld::R(r);
                        DRes::Opt(Some(v))
                    }
                    None => DRes::Opt(None),
                }
            }
            DOp::GetMutHold(k) => {
                assert!(matches!(l.h, DHeld::None), "ill-formed program");
                match map.get_mut(k) {
                    Some(r) => {
                        let v = *r;
                        l.h = DHeld::W(r);
                        DRes::Opt(Some(v))
                    }
                    None => DRes::Opt(None),
                }
            }
            DOp::EntryHold(k, v) => {
                assert!(matches!(l.h, DHeld::None), "ill-formed program");
                let r = map.entry(*k).or_insert(*v);
                let seen = *r;
                l.h = DHeld::W(r);
                DRes::Opt(Some(seen))
            }
            DOp::SetHeld(v) => match &mut l.h {
                DHeld::W(r) => {
                    **r = *v;
                    DRes::Unit
                }
                _ => DRes::Nothing,
            },
            DOp::ReadHeld => match &l.h {
                DHeld::W(r) => DRes::Opt(Some(**r)),
                DHeld::R(r) => DRes::Opt(Some(**r)),
                DHeld::E(_) | DHeld::None => DRes::Nothing,
            },
            DOp::ReadHeldPair => match &l.h {
                DHeld::W(r) => {
                    let (k, v) = r.pair();
                    assert_eq!((k, v), (r.key(), r.value()), "RefMut accessors");
                    DRes::List(vec![(*k, *v)])
                }
                DHeld::R(r) => {
                    let (k, v) = r.pair();
                    assert_eq!((k, v), (r.key(), r.value()), "Ref accessors");
                    DRes::List(vec![(*k, *v)])
                }
                DHeld::E(_) | DHeld::None => DRes::Nothing,
            },
            DOp::AddHeld(d) => match &mut l.h {
                DHeld::W(r) => {
                    let (_, v) = r.pair_mut();
                    *v += *d;
                    *r.value_mut() += 0;
                    DRes::Unit
                }
                _ => DRes::Nothing,
            },
            DOp::DropHeld => match std::mem::replace(&mut l.h, DHeld::None) {
                DHeld::None => DRes::Nothing,
                DHeld::R(r) => {
                    drop(r);
                    DRes::Unit
                }
                DHeld::W(r) => {
                    drop(r);
                    DRes::Unit
                }
                DHeld::E(e) => {
                    drop(e);
                    DRes::Unit
                }
            },
            DOp::Remove(k) => DRes::Opt(map.remove(k).map(|(k2, v)| {
                assert_eq!(k2, *k);
                v
            })),
            DOp::EntryOrInsert(k, v) => {
                let r = map.entry(*k).or_insert(*v);
                DRes::Opt(Some(*r))
            }
            DOp::Alter(k, d) => {
                map.alter(k, |_, v| v + *d);
                DRes::Unit
            }
            DOp::ContainsKey(k) => DRes::Bool(map.contains_key(k)),
            DOp::Iter => {
                let mut v: Vec<(u8, u32)> = map
                    .iter()
                    .map(|r| {
                        assert_eq!(r.pair(), (r.key(), r.value()), "RefMulti accessors");
                        assert_eq!(*r, *r.value(), "RefMulti deref");
                        (*r.key(), *r.value())
                    })
                    .collect();
                v.sort();
                DRes::List(v)
            }
            DOp::Len => DRes::Num(map.len()),
            DOp::Clear => {
                map.clear();
                DRes::Unit
            }
            DOp::RemoveIf(k, th) => DRes::Opt(
                map.remove_if(k, |k2, v| {
                    assert_eq!(k2, k, "remove_if key");
                    *v < *th
                })
                .map(|(k2, v)| {
                    assert_eq!(k2, *k);
                    v
                }),
            ),
            DOp::RemoveIfMut(k, th, d) => DRes::Opt(
                map.remove_if_mut(k, |k2, v| {
                    assert_eq!(k2, k, "remove_if_mut key");
                    let old = *v;
                    *v += *d;
                    old < *th
                })
                .map(|(k2, v)| {
                    assert_eq!(k2, *k);
                    v
                }),
            ),
            DOp::Retain(th, d) => {
                map.retain(|_, v| {
                    if *v < *th {
                        *v += *d;
                        true
                    } else {
                        false
                    }
                });
                DRes::Unit
            }
            DOp::AlterAll(d) => {
                map.alter_all(|_, v| v + *d);
                DRes::Unit
            }
            DOp::View(k) => DRes::Opt(map.view(k, |k2, v| 2 * *v + *k2 as u32 + 1)),
            DOp::TryGet(k) => {
                let r = map.try_get(k);
                DRes::Try(match try_class(&r) {
                    2 => TryR::Locked,
                    1 => {
                        assert!(r.try_unwrap().is_none());
                        TryR::Absent
                    }
                    _ => {
                        let g = r.unwrap();
                        assert_eq!(g.key(), k, "Ref::key");
                        TryR::Present(*g.value())
                    }
                })
            }
            DOp::TryGetHold(k) => {
                assert!(matches!(l.h, DHeld::None), "ill-formed program");
                let r = map.try_get(k);
                DRes::Try(match try_class(&r) {
                    2 => TryR::Locked,
                    1 => TryR::Absent,
                    _ => {
                        let g = r.try_unwrap().expect("present");
                        let v = *g;
                        l.h = DHeld::R(g);
                        TryR::Present(v)
                    }
                })
            }
            DOp::TryGetMut(k, d) => {
                let r = map.try_get_mut(k);
                DRes::Try(match try_class(&r) {
                    2 => TryR::Locked,
                    1 => TryR::Absent,
                    _ => {
                        let mut g = r.unwrap();
                        let old = *g.value();
                        *g += *d;
                        TryR::Present(old)
                    }
                })
            }
            DOp::TryGetMutHold(k) => {
                assert!(matches!(l.h, DHeld::None), "ill-formed program");
                let r = map.try_get_mut(k);
                DRes::Try(match try_class(&r) {
                    2 => TryR::Locked,
                    1 => TryR::Absent,
                    _ => {
                        let g = r.try_unwrap().expect("present");
                        let v = *g;
                        l.h = DHeld::W(g);
                        TryR::Present(v)
                    }
                })
            }
            DOp::TryEntry(k, v) => DRes::Try(match map.try_entry(*k) {
                None => TryR::Locked,
                Some(e) => {
                    assert_eq!(e.key(), k, "Entry::key");
                    TryR::Present(*e.or_insert(*v))
                }
            }),
            DOp::TryEntryHold(k) => {
                assert!(matches!(l.h, DHeld::None), "ill-formed program");
                DRes::Try(match map.try_entry(*k) {
                    None => TryR::Locked,
                    Some(e) => {
                        let r = match &e {
                            shuttle_dashmap_impl::mapref::entry::Entry::Occupied(o) => TryR::Present(*o.get()),
                            shuttle_dashmap_impl::mapref::entry::Entry::Vacant(_) => TryR::Absent,
                        };
                        l.h = DHeld::E(e);
                        r
                    }
                })
            }
            DOp::TakeEntry(k) => {
                assert!(matches!(l.h, DHeld::None), "ill-formed program");
                let e = map.entry(*k);
                let r = match &e {
                    shuttle_dashmap_impl::mapref::entry::Entry::Occupied(o) => Some(*o.get()),
                    shuttle_dashmap_impl::mapref::entry::Entry::Vacant(_) => None,
                };
                l.h = DHeld::E(e);
                DRes::Opt(r)
            }
            DOp::ActHeld(oa, va) => match std::mem::replace(&mut l.h, DHeld::None) {
                DHeld::E(e) => do_entry(e, oa, va),
                other => {
                    l.h = other;
                    DRes::Nothing
                }
            },
            DOp::EntryDo(k, oa, va) => do_entry(map.entry(*k), oa, va),
            DOp::EntryAndModify(k, d, v) => DRes::Opt(Some(*map.entry(*k).and_modify(|x| *x += *d).or_insert(*v))),
            DOp::EntryOrDefault(k) => DRes::Opt(Some(*map.entry(*k).or_default())),
            DOp::EntryOrInsertWith(k, v) => DRes::Opt(Some(*map.entry(*k).or_insert_with(|| *v))),
            DOp::EntryOrInsertWithKey(k, v) => DRes::Opt(Some(*map.entry(*k).or_insert_with_key(|k2| *v + *k2 as u32))),
            DOp::GetMut(k, d) => DRes::Opt(map.get_mut(k).map(|mut r| {
                let old = *r;
                *r += *d;
                old
            })),
            DOp::IterMut(d) => {
                let mut v: Vec<(u8, u32)> = map
                    .iter_mut()
                    .map(|mut r| {
                        assert_eq!(r.pair(), (r.key(), r.value()), "RefMutMulti accessors");
                        let old = *r;
                        if *r.key() % 2 == 0 {
                            *r.value_mut() += *d;
                        } else {
                            let (_, x) = r.pair_mut();
                            *x += *d;
                        }
                        *r += 0;
                        (*r.key(), old)
                    })
                    .collect();
                v.sort();
                DRes::List(v)
            }
            DOp::IsEmpty => DRes::Bool(map.is_empty()),
            DOp::ShrinkToFit => {
                map.shrink_to_fit();
                DRes::Unit
            }
            DOp::Capacity => {
                let _ = map.capacity();
                DRes::Unit
            }
            DOp::CloneMap => {
                let c = map.clone();
                let mut v: Vec<(u8, u32)> = c.into_iter().collect();
                v.sort();
                DRes::List(v)
            }
            DOp::SInsert(k) => DRes::Bool(set.insert(*k)),
            DOp::SRemove(k) => DRes::Opt(set.remove(k).map(|k| k as u32)),
            DOp::SContains(k) => DRes::Bool(set.contains(k)),
            DOp::SGetHold(k) => {
                assert!(l.sh.is_none(), "ill-formed program");
                match set.get(k) {
                    Some(r) => {
                        let v = *r.key();
                        assert_eq!(*r, v, "set Ref deref");
                        l.sh = Some(r);
                        DRes::Opt(Some(v as u32))
                    }
                    None => DRes::Opt(None),
                }
            }
            DOp::SDropHeld => match l.sh.take() {
                None => DRes::Nothing,
                Some(r) => {
                    drop(r);
                    DRes::Unit
                }
            },
            DOp::SIter => {
                let mut v: Vec<(u8, u32)> = set
                    .iter()
                    .map(|r| {
                        assert_eq!(*r, *r.key(), "set RefMulti deref");
                        (*r.key(), 0)
                    })
                    .collect();
                v.sort();
                DRes::List(v)
            }
            DOp::SLen => DRes::Num(set.len()),
            DOp::SClear => {
                set.clear();
                DRes::Unit
            }
            DOp::SRemoveIf(k, th) => DRes::Opt(set.remove_if(k, |x| *x < *th).map(|k| k as u32)),
            DOp::SRetain(th) => {
                set.retain(|x| *x < *th);
                DRes::Unit
            }
            DOp::SIsEmpty => DRes::Bool(set.is_empty()),
            DOp::SShrinkToFit => {
                set.shrink_to_fit();
                DRes::Unit
            }
            DOp::SCapacity => {
                let _ = set.capacity();
                DRes::Unit
            }
        }
    }

    fn m_init(cfg: &DCfg, _n: usize) -> DM {
        let e = MapM {
            kv: vec![],
            readers: vec![],
            writer: None,
            held: vec![],
            snaps: vec![],
        };
        DM {
            map: e.clone(),
            set: e,
            reentrant: cfg.reentrant,
        }
    }

    fn m_step(m: &DM, t: usize, op: &DOp, phase: u8, _strict: bool) -> Steps {
        let t = t as u8;
        use Which::*;
        match op {
            DOp::Insert(k, v) => Self::write_op(m, Map, t, phase, |x| DRes::Opt(x.put(*k, *v))),
            DOp::Remove(k) => Self::write_op(m, Map, t, phase, |x| DRes::Opt(x.del(*k))),
            DOp::EntryOrInsert(k, v) => Self::write_op(m, Map, t, phase, |x| {
                if x.get(*k).is_none() {
                    x.put(*k, *v);
                }
                DRes::Opt(x.get(*k))
            }),
            DOp::Alter(k, d) => Self::write_op(m, Map, t, phase, |x| {
                if let Some(v) = x.get(*k) {
                    x.put(*k, v + *d);
                }
                DRes::Unit
            }),
            DOp::Clear => Self::write_op(m, Map, t, phase, |x| {
                x.kv.clear();
                DRes::Unit
            }),
            DOp::Get(k) => Self::read_op(m, Map, t, phase, |x| DRes::Opt(x.get(*k))),
            DOp::ContainsKey(k) => Self::read_op(m, Map, t, phase, |x| DRes::Bool(x.get(*k).is_some())),
            DOp::Iter => Self::read_op(m, Map, t, phase, |x| DRes::List(x.kv.clone())),
            DOp::Len => Self::read_op(m, Map, t, phase, |x| DRes::Num(x.kv.len())),
            DOp::SInsert(k) => Self::write_op(m, Set, t, phase, |x| DRes::Bool(x.put(*k, 0).is_none())),
            DOp::SRemove(k) => Self::write_op(m, Set, t, phase, |x| DRes::Opt(x.del(*k).map(|_| *k as u32))),
            DOp::SClear => Self::write_op(m, Set, t, phase, |x| {
                x.kv.clear();
                DRes::Unit
            }),
            DOp::SContains(k) => Self::read_op(m, Set, t, phase, |x| DRes::Bool(x.get(*k).is_some())),
            DOp::SIter => Self::read_op(m, Set, t, phase, |x| DRes::List(x.kv.clone())),
            DOp::SLen => Self::read_op(m, Set, t, phase, |x| DRes::Num(x.kv.len())),
            DOp::SIsEmpty => Self::read_op(m, Set, t, phase, |x| DRes::Bool(x.kv.is_empty())),
            DOp::SCapacity => Self::read_op(m, Set, t, phase, |_| DRes::Unit),
            DOp::SShrinkToFit => Self::write_op(m, Set, t, phase, |_| DRes::Unit),
            DOp::SRemoveIf(k, th) => Self::write_op(m, Set, t, phase, |x| {
                if x.get(*k).is_some() && *k < *th {
                    x.del(*k);
                    DRes::Opt(Some(*k as u32))
                } else {
                    DRes::Opt(None)
                }
            }),
            DOp::SRetain(th) => Self::write_op(m, Set, t, phase, |x| {
                x.kv.retain(|e| e.0 < *th);
                DRes::Unit
            }),
            DOp::RemoveIf(k, th) => Self::write_op(m, Map, t, phase, |x| match x.get(*k) {
                Some(v) if v < *th => DRes::Opt(x.del(*k)),
                _ => DRes::Opt(None),
            }),
            DOp::RemoveIfMut(k, th, d) => Self::write_op(m, Map, t, phase, |x| match x.get(*k) {
                Some(v) if v < *th => {
                    x.del(*k);
                    DRes::Opt(Some(v + *d))
                }
                Some(v) => {
                    x.put(*k, v + *d);
                    DRes::Opt(None)
                }
                None => DRes::Opt(None),
            }),
            DOp::Retain(th, d) => Self::write_op(m, Map, t, phase, |x| {
                x.kv.retain(|e| e.1 < *th);
                for e in x.kv.iter_mut() {
                    e.1 += *d;
                }
                DRes::Unit
            }),
            DOp::AlterAll(d) => Self::write_op(m, Map, t, phase, |x| {
                for e in x.kv.iter_mut() {
                    e.1 += *d;
                }
                DRes::Unit
            }),
            DOp::IterMut(d) => Self::write_op(m, Map, t, phase, |x| {
                let old = x.kv.clone();
                for e in x.kv.iter_mut() {
                    e.1 += *d;
                }
                DRes::List(old)
            }),
            DOp::GetMut(k, d) => Self::write_op(m, Map, t, phase, |x| {
                let old = x.get(*k);
                if let Some(v) = old {
                    x.put(*k, v + *d);
                }
                DRes::Opt(old)
            }),
            DOp::ShrinkToFit => Self::write_op(m, Map, t, phase, |_| DRes::Unit),
            DOp::EntryDo(k, oa, va) => Self::write_op(m, Map, t, phase, |x| Self::entry_act(x, *k, oa, va)),
            DOp::EntryAndModify(k, d, v) => Self::write_op(m, Map, t, phase, |x| {
                match x.get(*k) {
                    Some(old) => x.put(*k, old + *d),
                    None => x.put(*k, *v),
                };
                DRes::Opt(x.get(*k))
            }),
            DOp::EntryOrDefault(k) | DOp::EntryOrInsertWith(k, _) | DOp::EntryOrInsertWithKey(k, _) => {
                let nv = match op {
                    DOp::EntryOrInsertWith(_, v) => *v,
                    DOp::EntryOrInsertWithKey(k, v) => *v + *k as u32,
                    _ => 0,
                };
                Self::write_op(m, Map, t, phase, |x| {
                    if x.get(*k).is_none() {
                        x.put(*k, nv);
                    }
                    DRes::Opt(x.get(*k))
                })
            }
            DOp::View(k) => Self::read_op(m, Map, t, phase, |x| DRes::Opt(x.get(*k).map(|v| 2 * v + *k as u32 + 1))),
            DOp::IsEmpty => Self::read_op(m, Map, t, phase, |x| DRes::Bool(x.kv.is_empty())),
            DOp::Capacity => Self::read_op(m, Map, t, phase, |_| DRes::Unit),
            // clone() copies under the shared lock and gives it back; reading the private copy is a
            // further scheduling point (its own lock), so the answer is fixed before the return
            DOp::CloneMap => {
                let mut n = m.clone();
                let x = &mut n.map;
                match phase {
                    0 => {
                        if weak() && m.reentrant && x.readers.contains(&t) {
                            return vec![MStep::Panic(REENTRANT_PANIC.into())];
                        }
                        if !x.can_read() {
                            return vec![];
                        }
                        x.add_reader(t);
                        vec![MStep::Cont(n, 1)]
                    }
                    1 => {
                        x.rm_reader(t);
                        let c = x.kv.clone();
                        x.snaps.push((t, c));
                        vec![MStep::Cont(n, 2)]
                    }
                    _ => {
                        let p = x.snaps.iter().position(|s| s.0 == t).expect("model: snapshot");
                        let (_, c) = x.snaps.remove(p);
                        vec![MStep::Done(n, DRes::List(c))]
                    }
                }
            }
            DOp::TryGet(k) => Self::try_read_op(m, Map, t, phase, |x| match x.get(*k) {
                Some(v) => TryR::Present(v),
                None => TryR::Absent,
            }),
            DOp::TryGetMut(k, d) => Self::try_write_op(m, Map, t, phase, |x| match x.get(*k) {
                Some(v) => {
                    x.put(*k, v + *d);
                    TryR::Present(v)
                }
                None => TryR::Absent,
            }),
            DOp::TryEntry(k, v) => Self::try_write_op(m, Map, t, phase, |x| {
                if x.get(*k).is_none() {
                    x.put(*k, *v);
                }
                TryR::Present(x.get(*k).unwrap())
            }),
            DOp::TryGetHold(k) => {
                let mut n = m.clone();
                let x = &mut n.map;
                if phase == 0 {
                    if (weak() && m.reentrant && x.readers.contains(&t)) || !x.can_read() {
                        return vec![MStep::Done(m.clone(), DRes::Try(TryR::Locked))];
                    }
                    x.add_reader(t);
                    match x.get(*k) {
                        Some(v) => {
                            x.held.push((t, *k, HK::R));
                            vec![MStep::Done(n, DRes::Try(TryR::Present(v)))]
                        }
                        None => vec![MStep::Cont(n, 1)],
                    }
                } else {
                    x.rm_reader(t);
                    vec![MStep::Done(n, DRes::Try(TryR::Absent))]
                }
            }
            DOp::TryGetMutHold(k) => {
                let mut n = m.clone();
                let x = &mut n.map;
                if phase == 0 {
                    if !x.can_write() {
                        return vec![MStep::Done(m.clone(), DRes::Try(TryR::Locked))];
                    }
                    x.writer = Some(t);
                    match x.get(*k) {
                        Some(v) => {
                            x.held.push((t, *k, HK::W));
                            vec![MStep::Done(n, DRes::Try(TryR::Present(v)))]
                        }
                        None => vec![MStep::Cont(n, 1)],
                    }
                } else {
                    x.writer = None;
                    vec![MStep::Done(n, DRes::Try(TryR::Absent))]
                }
            }
            DOp::TryEntryHold(k) | DOp::TakeEntry(k) => {
                let trying = matches!(op, DOp::TryEntryHold(_));
                let mut n = m.clone();
                let x = &mut n.map;
                if !x.can_write() {
                    return if trying { vec![MStep::Done(m.clone(), DRes::Try(TryR::Locked))] } else { vec![] };
                }
                // a vacant entry keeps the lock as well
                x.writer = Some(t);
                x.held.push((t, *k, HK::E));
                let v = x.get(*k);
                let r = if trying {
                    DRes::Try(match v {
                        Some(v) => TryR::Present(v),
                        None => TryR::Absent,
                    })
                } else {
                    DRes::Opt(v)
                };
                vec![MStep::Done(n, r)]
            }
            DOp::ActHeld(oa, va) => {
                let mut n = m.clone();
                let x = &mut n.map;
                match x.held.iter().position(|h| h.0 == t && h.2 == HK::E) {
                    Some(p) => {
                        let (_, k, _) = x.held.remove(p);
                        let r = Self::entry_act(x, k, oa, va);
                        x.writer = None;
                        vec![MStep::Done(n, r)]
                    }
                    None => vec![MStep::Done(n, DRes::Nothing)],
                }
            }
            DOp::AddHeld(d) => {
                let mut n = m.clone();
                match n.map.held.iter().find(|h| h.0 == t).cloned() {
                    Some((_, k, HK::W)) => {
                        let v = n.map.get(k).expect("model: value behind a RefMut");
                        n.map.put(k, v + *d);
                        vec![MStep::Done(n, DRes::Unit)]
                    }
                    _ => vec![MStep::Done(n, DRes::Nothing)],
                }
            }
            DOp::ReadHeldPair => {
                let n = m.clone();
                match n.map.held.iter().find(|h| h.0 == t).cloned() {
                    Some((_, k, HK::R)) | Some((_, k, HK::W)) => {
                        let v = n.map.get(k).expect("model: value behind a guard");
                        vec![MStep::Done(n, DRes::List(vec![(k, v)]))]
                    }
                    _ => vec![MStep::Done(n, DRes::Nothing)],
                }
            }
            DOp::GetHold(k) | DOp::SGetHold(k) => {
                let is_map = matches!(op, DOp::GetHold(_));
                let mut n = m.clone();
                let x = if is_map { &mut n.map } else { &mut n.set };
                if phase == 0 {
                    if weak() && m.reentrant && x.readers.contains(&t) {
                        return vec![MStep::Panic(REENTRANT_PANIC.into())];
                    }
                    if !x.can_read() {
                        return vec![];
                    }
                    x.add_reader(t);
                    match x.get(*k) {
                        Some(v) => {
                            x.held.push((t, *k, HK::R));
                            let r = if is_map { v } else { *k as u32 };
                            vec![MStep::Done(n, DRes::Opt(Some(r)))]
                        }
                        // absent: the lock is given back before the call returns
                        None => vec![MStep::Cont(n, 1)],
                    }
                } else {
                    x.rm_reader(t);
                    vec![MStep::Done(n, DRes::Opt(None))]
                }
            }
            DOp::GetMutHold(k) => {
                let mut n = m.clone();
                let x = &mut n.map;
                if phase == 0 {
                    if !x.can_write() {
                        return vec![];
                    }
                    x.writer = Some(t);
                    match x.get(*k) {
                        Some(v) => {
                            x.held.push((t, *k, HK::W));
                            vec![MStep::Done(n, DRes::Opt(Some(v)))]
                        }
                        None => vec![MStep::Cont(n, 1)],
                    }
                } else {
                    x.writer = None;
                    vec![MStep::Done(n, DRes::Opt(None))]
                }
            }
            DOp::EntryHold(k, v) => {
                let mut n = m.clone();
                let x = &mut n.map;
                if !x.can_write() {
                    return vec![];
                }
                x.writer = Some(t);
                if x.get(*k).is_none() {
                    x.put(*k, *v);
                }
                x.held.push((t, *k, HK::W));
                let seen = x.get(*k);
                vec![MStep::Done(n, DRes::Opt(seen))]
            }
            DOp::SetHeld(v) => {
                let mut n = m.clone();
                match n.map.held.iter().find(|h| h.0 == t).cloned() {
                    Some((_, k, HK::W)) => {
                        n.map.put(k, *v);
                        vec![MStep::Done(n, DRes::Unit)]
                    }
                    _ => vec![MStep::Done(n, DRes::Nothing)],
                }
            }
            DOp::ReadHeld => {
                let n = m.clone();
                match n.map.held.iter().find(|h| h.0 == t).cloned() {
                    Some((_, k, HK::R)) | Some((_, k, HK::W)) => {
                        let v = n.map.get(k);
                        vec![MStep::Done(n, DRes::Opt(v))]
                    }
                    _ => vec![MStep::Done(n, DRes::Nothing)],
                }
            }
            DOp::DropHeld | DOp::SDropHeld => {
                let mut n = m.clone();
                let x = if matches!(op, DOp::DropHeld) { &mut n.map } else { &mut n.set };
                match x.held.iter().position(|h| h.0 == t) {
                    Some(p) => {
                        let (_, _, kind) = x.held.remove(p);
                        if kind == HK::R {
                            x.rm_reader(t);
                        } else {
                            x.writer = None;
                        }
                        vec![MStep::Done(n, DRes::Unit)]
                    }
                    None => vec![MStep::Done(n, DRes::Nothing)],
                }
            }
        }
    }
}

// ---------------------------------------------------------------------------------------------
// program generation
// ---------------------------------------------------------------------------------------------

fn plain_ops(keys: &[u8], rich: bool) -> Vec<DOp> {
    let mut plain: Vec<DOp> = Vec::new();
    if rich {
        for &key in keys {
            plain.push(DOp::Insert(key, 1));
            plain.push(DOp::Get(key));
            plain.push(DOp::Remove(key));
            plain.push(DOp::EntryOrInsert(key, 2));
            plain.push(DOp::Alter(key, 100));
            plain.push(DOp::ContainsKey(key));
        }
    } else {
        // both keys are written and read, every operation kind occurs
        plain.extend([DOp::Insert(0, 1), DOp::Insert(1, 1), DOp::Get(0), DOp::Remove(0), DOp::EntryOrInsert(1, 2), DOp::Alter(0, 100)]);
    }
    plain.push(DOp::Iter);
    plain.push(DOp::Len);
    plain.push(DOp::Clear);
    plain
}

/// all sequences of 1..=k plain operations
fn plain_bodies(plain: &[DOp], k: usize) -> Vec<Vec<DOp>> {
    let mut out: Vec<Vec<DOp>> = Vec::new();
    let mut layer: Vec<Vec<DOp>> = vec![vec![]];
    for _ in 0..k {
        let mut next = Vec::new();
        for b in &layer {
            for p in plain {
                let mut c = b.clone();
                c.push(p.clone());
                next.push(c);
            }
        }
        out.extend(next.iter().cloned());
        layer = next;
    }
    out
}

/// bodies built around a guard that is kept across other operations of the thread (`tail`: plain
/// operations issued after the guard is dropped; never while it is held — that self-deadlocks in
/// the real dashmap as well)
fn hold_bodies(keys: &[u8], tails: &[DOp]) -> Vec<Vec<DOp>> {
    let mut out = Vec::new();
    for &k in keys {
        let cores: Vec<Vec<DOp>> = vec![
            vec![DOp::GetHold(k), DOp::DropHeld],
            vec![DOp::GetHold(k), DOp::ReadHeld, DOp::DropHeld],
            vec![DOp::GetHold(k)],
            vec![DOp::GetMutHold(k), DOp::SetHeld(7), DOp::DropHeld],
            vec![DOp::GetMutHold(k), DOp::SetHeld(7), DOp::ReadHeld, DOp::DropHeld],
            vec![DOp::GetMutHold(k), DOp::SetHeld(7)],
            vec![DOp::EntryHold(k, 3), DOp::SetHeld(7), DOp::DropHeld],
            vec![DOp::EntryHold(k, 3), DOp::ReadHeld, DOp::DropHeld],
        ];
        for c in cores {
            out.push(c.clone());
            if matches!(c.last(), Some(DOp::DropHeld)) {
                for t in tails {
                    let mut d = c.clone();
                    d.push(t.clone());
                    out.push(d);
                }
            }
        }
    }
    out
}

fn set_plain(rich: bool) -> Vec<DOp> {
    if rich {
        vec![DOp::SInsert(0), DOp::SInsert(1), DOp::SRemove(0), DOp::SRemove(1), DOp::SContains(0), DOp::SContains(1), DOp::SIter, DOp::SLen, DOp::SClear]
    } else {
        vec![DOp::SInsert(0), DOp::SInsert(1), DOp::SRemove(0), DOp::SContains(0), DOp::SIter, DOp::SLen, DOp::SClear]
    }
}

/// values are made specific to the thread that writes them
fn personalise(ops: &[DOp], t: usize) -> Vec<DOp> {
    let d = 10 * t as u32;
    let m = t as u32 + 1;
    let occ = |a: &OccAct| match a {
        OccAct::GetMut(x) => OccAct::GetMut(x * m),
        OccAct::Insert(v) => OccAct::Insert(v + d),
        OccAct::ReplaceEntry(v) => OccAct::ReplaceEntry(v + d),
        OccAct::ReplaceWith(th, x) => OccAct::ReplaceWith(*th, x * m),
        OccAct::IntoRef(x) => OccAct::IntoRef(x * m),
        x => x.clone(),
    };
    let vac = |a: &VacAct| match a {
        VacAct::Insert(v) => VacAct::Insert(v + d),
        VacAct::InsertEntry(v) => VacAct::InsertEntry(v + d),
        VacAct::Leave => VacAct::Leave,
    };
    ops.iter()
        .map(|o| match o {
            DOp::Insert(k, v) => DOp::Insert(*k, v + d),
            DOp::EntryOrInsert(k, v) => DOp::EntryOrInsert(*k, v + d),
            DOp::EntryHold(k, v) => DOp::EntryHold(*k, v + d),
            DOp::SetHeld(v) => DOp::SetHeld(v + d),
            DOp::Alter(k, a) => DOp::Alter(*k, a * m),
            DOp::RemoveIfMut(k, th, x) => DOp::RemoveIfMut(*k, *th, x * m),
            DOp::Retain(th, x) => DOp::Retain(*th, x * m),
            DOp::AlterAll(x) => DOp::AlterAll(x * m),
            DOp::TryGetMut(k, x) => DOp::TryGetMut(*k, x * m),
            DOp::TryEntry(k, v) => DOp::TryEntry(*k, v + d),
            DOp::ActHeld(a, b) => DOp::ActHeld(occ(a), vac(b)),
            DOp::EntryDo(k, a, b) => DOp::EntryDo(*k, occ(a), vac(b)),
            DOp::EntryAndModify(k, x, v) => DOp::EntryAndModify(*k, x * m, v + d),
            DOp::EntryOrInsertWith(k, v) => DOp::EntryOrInsertWith(*k, v + d),
            DOp::EntryOrInsertWithKey(k, v) => DOp::EntryOrInsertWithKey(*k, v + d),
            DOp::GetMut(k, x) => DOp::GetMut(*k, x * m),
            DOp::IterMut(x) => DOp::IterMut(x * m),
            DOp::AddHeld(x) => DOp::AddHeld(x * m),
            x => x.clone(),
        })
        .collect()
}

/// Bodies (1 lock-taking operation, guards dropped inside the body) for every operation outside the
/// original alphabet, all on key `k`.  Values: the map starts with {0: 5, 1: 60}; thresholds are 50,
/// deltas 1000 * (thread + 1), a racing `alter` adds 100 * (thread + 1): every predicate flips when
/// a racing writer gets in between, every delta is visible in the answer or in the final contents.
fn new_map_bodies(k: u8) -> Vec<Vec<DOp>> {
    let va = [VacAct::Leave, VacAct::Insert(3), VacAct::InsertEntry(3)];
    let oa = [
        OccAct::Get,
        OccAct::GetMut(1000),
        OccAct::Insert(4),
        OccAct::Remove,
        OccAct::RemoveEntry,
        OccAct::ReplaceEntry(4),
        OccAct::ReplaceWith(50, 1000),
        OccAct::IntoRef(1000),
        OccAct::IntoKey,
    ];
    let mut v: Vec<Vec<DOp>> = vec![
        vec![DOp::RemoveIf(k, 50)],
        vec![DOp::RemoveIfMut(k, 50, 1000)],
        vec![DOp::Retain(50, 1000)],
        vec![DOp::AlterAll(1000)],
        vec![DOp::View(k)],
        vec![DOp::TryGet(k)],
        vec![DOp::TryGetHold(k), DOp::ReadHeldPair, DOp::DropHeld],
        vec![DOp::TryGetMut(k, 1000)],
        vec![DOp::TryGetMutHold(k), DOp::AddHeld(1000), DOp::ReadHeldPair, DOp::DropHeld],
        vec![DOp::TryEntry(k, 3)],
        vec![DOp::TryEntryHold(k), DOp::ActHeld(OccAct::GetMut(1000), VacAct::Insert(3))],
        vec![DOp::TryEntryHold(k), DOp::DropHeld],
        vec![DOp::TakeEntry(k), DOp::ActHeld(OccAct::Remove, VacAct::InsertEntry(3))],
        vec![DOp::TakeEntry(k), DOp::ActHeld(OccAct::ReplaceWith(50, 1000), VacAct::Leave)],
        vec![DOp::TakeEntry(k), DOp::DropHeld],
        vec![DOp::GetMut(k, 1000)],
        vec![DOp::IterMut(1000)],
        vec![DOp::IsEmpty],
        vec![DOp::ContainsKey(k)],
        vec![DOp::Len],
        vec![DOp::ShrinkToFit],
        vec![DOp::Capacity],
        vec![DOp::CloneMap],
        vec![DOp::EntryAndModify(k, 1000, 3)],
        vec![DOp::EntryOrDefault(k)],
        vec![DOp::EntryOrInsertWith(k, 3)],
        vec![DOp::EntryOrInsertWithKey(k, 3)],
        vec![DOp::EntryHold(k, 3), DOp::AddHeld(1000), DOp::ReadHeldPair, DOp::DropHeld],
        vec![DOp::GetHold(k), DOp::ReadHeldPair, DOp::DropHeld],
    ];
    for (i, a) in oa.iter().enumerate() {
        v.push(vec![DOp::EntryDo(k, a.clone(), va[i % 3].clone())]);
    }
    v
}

/// the racing writers / guard holders every new operation is paired with (same key)
fn map_partners(k: u8) -> Vec<Vec<DOp>> {
    vec![
        vec![DOp::Insert(k, 1)],
        vec![DOp::Remove(k)],
        vec![DOp::Alter(k, 100)],
        vec![DOp::GetHold(k), DOp::ReadHeld, DOp::DropHeld],
        vec![DOp::GetMutHold(k), DOp::SetHeld(7), DOp::DropHeld],
    ]
}

fn new_set_bodies() -> Vec<Vec<DOp>> {
    vec![
        vec![DOp::SRemoveIf(0, 1)],
        vec![DOp::SRemoveIf(1, 1)],
        vec![DOp::SRetain(1)],
        vec![DOp::SIsEmpty],
        vec![DOp::SShrinkToFit],
        vec![DOp::SCapacity],
        vec![DOp::SLen],
        vec![DOp::SContains(0)],
        vec![DOp::SIter],
        vec![DOp::SClear],
    ]
}

fn set_partners() -> Vec<Vec<DOp>> {
    vec![
        vec![DOp::SInsert(0)],
        vec![DOp::SInsert(1)],
        vec![DOp::SRemove(0)],
        vec![DOp::SClear],
        vec![DOp::SGetHold(0), DOp::SDropHeld],
    ]
}

/// main performs `pre` BEFORE it spawns the children (no race with them), then joins
fn mk(pre: &[DOp], children: &[&Vec<DOp>], reentrant: bool) -> Program<DashFam> {
    mk_post(pre, children, &[], reentrant)
}

/// ... and performs `post` after the joins (observes the final contents)
fn mk_post(pre: &[DOp], children: &[&Vec<DOp>], post: &[DOp], reentrant: bool) -> Program<DashFam> {
    let n = children.len();
    let mut main: Vec<GOp<DOp>> = personalise(pre, 0).into_iter().map(GOp::Op).collect();
    main.extend((1..=n).map(GOp::Spawn));
    main.extend((1..=n).map(GOp::Join));
    main.extend(post.iter().cloned().map(GOp::Op));
    let mut threads = vec![main];
    for (i, c) in children.iter().enumerate() {
        threads.push(personalise(c, i + 1).into_iter().map(GOp::Op).collect());
    }
    Program {
        cfg: DCfg { reentrant },
        threads,
    }
}

/// main performs `ops` concurrently with the children
fn mk_racing(ops: &[DOp], children: &[&Vec<DOp>]) -> Program<DashFam> {
    Program::fork_join(DCfg { reentrant: false }, personalise(ops, 0), children.iter().enumerate().map(|(i, c)| personalise(c, i + 1)).collect())
}

/// number of operations that take the lock
fn weight(s: &[DOp]) -> usize {
    s.iter().map(|o| if matches!(o, DOp::SetHeld(_) | DOp::ReadHeld | DOp::DropHeld | DOp::SDropHeld | DOp::AddHeld(_) | DOp::ReadHeldPair | DOp::ActHeld(..)) { 0 } else { 1 }).sum()
}

fn pairs(out: &mut Vec<Program<DashFam>>, pre: &[DOp], bs: &[Vec<DOp>], ok: impl Fn(usize, usize) -> bool) {
    for idx in nondecreasing_tuples(bs.len(), 2) {
        let (a, b) = (&bs[idx[0]], &bs[idx[1]]);
        if ok(weight(a), weight(b)) {
            out.push(mk(pre, &[a, b], false));
        }
    }
}

pub fn program_set(set: &str) -> Vec<Program<DashFam>> {
    let thorough = set == "thorough";
    let mut out = Vec::new();
    let keys = [0u8, 1];
    let pre = [DOp::Insert(0, 5)];
    let small: Vec<DOp> = vec![DOp::Insert(0, 1), DOp::Get(0), DOp::Remove(0), DOp::EntryOrInsert(1, 2), DOp::Alter(0, 100), DOp::Iter, DOp::Clear];
    // B1: two threads on the map, two keys (one of them pre-filled by main): plain operations and guards
    if !thorough {
        let mut bs = plain_bodies(&small, 1);
        let small5 = vec![DOp::Insert(0, 1), DOp::Get(0), DOp::Remove(0), DOp::EntryOrInsert(1, 2), DOp::Iter];
        bs.extend(plain_bodies(&small5, 2).into_iter().filter(|b| b.len() == 2));
        bs.extend(hold_bodies(&keys, &[]));
        pairs(&mut out, &pre, &bs, |a, b| a + b <= 3);
    } else {
        let rich = plain_ops(&keys, true);
        let mut bs = plain_bodies(&rich, 2);
        bs.extend(hold_bodies(&keys, &rich));
        pairs(&mut out, &pre, &bs, |a, b| a + b <= 3);
        let mut bs = plain_bodies(&small, 3);
        bs.extend(hold_bodies(&keys, &small));
        pairs(&mut out, &pre, &bs, |a, b| a + b == 4);
    }
    // B1': main's insert races with two single-operation children
    {
        let plain = if thorough { plain_ops(&keys, true) } else { vec![DOp::Get(0), DOp::Remove(0), DOp::EntryOrInsert(0, 2), DOp::Iter] };
        let bs = plain_bodies(&plain, 1);
        for idx in nondecreasing_tuples(bs.len(), 2) {
            out.push(mk_racing(&pre, &[&bs[idx[0]], &bs[idx[1]]]));
        }
    }
    // B2: three threads
    if thorough {
        let mut bs = plain_bodies(&plain_ops(&keys, false), 1);
        bs.push(vec![DOp::GetMutHold(0), DOp::SetHeld(7), DOp::DropHeld]);
        bs.push(vec![DOp::GetHold(0), DOp::ReadHeld, DOp::DropHeld]);
        bs.push(vec![DOp::EntryHold(1, 3), DOp::SetHeld(7), DOp::DropHeld]);
        for idx in nondecreasing_tuples(bs.len(), 3) {
            out.push(mk(&pre, &[&bs[idx[0]], &bs[idx[1]], &bs[idx[2]]], false));
        }
    } else {
        let h = vec![DOp::GetMutHold(0), DOp::SetHeld(7), DOp::DropHeld];
        out.push(mk(&pre, &[&vec![DOp::Insert(0, 1)], &vec![DOp::Get(0)], &vec![DOp::Remove(0)]], false));
        out.push(mk(&pre, &[&vec![DOp::EntryOrInsert(1, 2)], &vec![DOp::Iter], &h], false));
        out.push(mk(&pre, &[&vec![DOp::Alter(0, 100)], &vec![DOp::Alter(0, 100)], &vec![DOp::Get(0)]], false));
    }
    // B3: DashSet
    {
        let spre = [DOp::SInsert(0)];
        let ssmall = vec![DOp::SInsert(1), DOp::SRemove(0), DOp::SContains(0), DOp::SIter];
        let holds = |tails: &[DOp]| -> Vec<Vec<DOp>> {
            let mut v = Vec::new();
            for k in keys {
                v.push(vec![DOp::SGetHold(k), DOp::SDropHeld]);
                v.push(vec![DOp::SGetHold(k)]);
                for p in tails {
                    v.push(vec![DOp::SGetHold(k), DOp::SDropHeld, p.clone()]);
                }
            }
            v
        };
        if !thorough {
            let mut bs = plain_bodies(&ssmall, 2);
            bs.extend(holds(&[]));
            pairs(&mut out, &spre, &bs, |a, b| a + b <= 3);
        } else {
            let rich = set_plain(true);
            let mut bs = plain_bodies(&rich, 2);
            bs.extend(holds(&rich));
            pairs(&mut out, &spre, &bs, |a, b| a + b <= 3);
            let mut bs = plain_bodies(&set_plain(false), 3);
            bs.extend(holds(&set_plain(false)));
            pairs(&mut out, &spre, &bs, |a, b| a + b == 4);
            let b1 = plain_bodies(&rich, 1);
            for idx in nondecreasing_tuples(b1.len(), 3) {
                out.push(mk(&spre, &[&b1[idx[0]], &b1[idx[1]], &b1[idx[2]]], false));
            }
        }
    }
    // B5: every operation outside the original alphabet against each racing writer / guard holder
    // on the same key, and against itself; main reads the final contents after the joins.
    //
    // API coverage (lib.rs / set.rs -> operation of the alphabet; lock mode read from the source):
    //   insert W Insert | get R Get/GetHold | get_mut W GetMut/GetMutHold | try_get tryR TryGet/TryGetHold
    //   try_get_mut tryW TryGetMut/TryGetMutHold | remove W Remove | remove_if W RemoveIf
    //   remove_if_mut W RemoveIfMut | entry W EntryDo/TakeEntry/Entry* | try_entry tryW TryEntry/TryEntryHold
    //   iter R Iter | iter_mut W IterMut | len R Len | is_empty R IsEmpty | clear W Clear
    //   capacity R Capacity | shrink_to_fit W ShrinkToFit | contains_key R ContainsKey | retain W Retain
    //   alter W Alter | alter_all W AlterAll | view R View | clone R CloneMap
    //   Entry::{or_insert EntryOrInsert/EntryHold, or_insert_with, or_insert_with_key, or_default,
    //           and_modify EntryAndModify, key (asserted in every entry operation)}
    //   OccupiedEntry::{key, get, get_mut, into_ref, insert, into_key, remove, remove_entry,
    //                   replace_entry, replace_entry_with} = OccAct; VacantEntry::{key, into_key,
    //                   insert, insert_entry} = VacAct
    //   Ref::{key, value, pair, deref} ReadHeld/ReadHeldPair; RefMut::{key, value, value_mut, pair,
    //   pair_mut, deref, deref_mut} ReadHeld/ReadHeldPair/SetHeld/AddHeld; RefMulti / RefMutMulti
    //   accessors inside Iter / IterMut; TryResult::{is_present, is_absent, is_locked, unwrap,
    //   try_unwrap} inside the try operations.
    //   DashSet: insert SInsert | remove SRemove | remove_if SRemoveIf | get SGetHold | contains
    //   SContains | iter SIter | len SLen | is_empty SIsEmpty | clear SClear | capacity SCapacity |
    //   shrink_to_fit SShrinkToFit | retain SRetain.
    //   Not exercised: constructors, `Extend` (takes &mut self: no concurrent access is possible),
    //   `into_iter` of the shared map (by value), `RefMut::downgrade` (not implemented by the wrapper).
    // No operation of the wrapper takes the lock twice or gives it back between its read and its
    // write (read from the source and confirmed by the runs: a second acquisition shows up as an
    // Enabled violation, see the `view` self-test in the builder's report).
    {
        let pre2 = [DOp::Insert(0, 5), DOp::Insert(1, 60)];
        let post = [DOp::Iter];
        let news = new_map_bodies(0);
        let partners = map_partners(0);
        let news1 = new_map_bodies(1);
        let partners1 = map_partners(1);
        for (i, n) in news.iter().enumerate() {
            for p in &partners {
                out.push(mk_post(&pre2, &[n, p], &post, false));
            }
            out.push(mk_post(&pre2, &[n, n], &post, false));
            // from the empty map: the vacant / absent side of the operation
            out.push(mk_post(&[], &[n, &partners[0]], &post, false));
            out.push(mk_post(&[], &[n], &post, false));
            // on the key whose value fails the predicates (an operation that takes the entry out and
            // puts it back must not let anybody see the gap)
            for p in &partners1 {
                out.push(mk_post(&pre2, &[&news1[i], p], &post, false));
            }
            if thorough {
                out.push(mk_post(&[], &[n, n], &post, false));
                out.push(mk_post(&pre2, &[&news1[i], &news1[i]], &post, false));
                // new against new
                for n2 in &news[i + 1..] {
                    out.push(mk_post(&pre2, &[n, n2], &post, false));
                }
                // followed by a read of the same thread
                for p in &partners {
                    let mut n2 = n.clone();
                    n2.push(DOp::Get(0));
                    let mut p2 = p.clone();
                    p2.push(DOp::View(0));
                    out.push(mk_post(&pre2, &[&n2, &p2], &post, false));
                }
            }
        }
        // try-operations of a thread that keeps a guard itself: never block, answer Locked
        for h in [DOp::GetHold(0), DOp::GetMutHold(0), DOp::TakeEntry(0), DOp::TakeEntry(2)] {
            let shared = matches!(h, DOp::GetHold(_));
            for tr in [DOp::TryGet(0), DOp::TryGetMut(0, 1000), DOp::TryEntry(0, 3), DOp::TryGet(1)] {
                if shared && matches!(tr, DOp::TryGet(_)) {
                    continue; // recursive shared access: B4
                }
                let a = vec![h.clone(), tr.clone(), DOp::DropHeld];
                out.push(mk_post(&pre2, &[&a], &post, false));
                out.push(mk_post(&pre2, &[&a, &vec![DOp::TryGet(0)]], &post, false));
            }
        }
        // a guard that is never given back: try-operations answer Locked from then on, blocking ones wait for ever
        for h in [DOp::GetHold(0), DOp::GetMutHold(0), DOp::TakeEntry(2), DOp::TryEntryHold(2), DOp::TryGetHold(0), DOp::TryGetMutHold(0)] {
            for o in [DOp::TryGet(0), DOp::TryGetMut(0, 1000), DOp::TryEntry(1, 3), DOp::RemoveIf(0, 50), DOp::View(0)] {
                out.push(mk(&pre2, &[&vec![h.clone()], &vec![o.clone()]], false));
            }
        }
        // three threads
        let tri: Vec<Vec<DOp>> = if thorough {
            let mut v = news.clone();
            v.extend(partners.iter().cloned());
            v
        } else {
            vec![]
        };
        for idx in nondecreasing_tuples(tri.len(), 3) {
            // at least one new operation and one writer among the old ones
            if idx[0] < news.len() && idx[2] >= news.len() && idx[2] < news.len() + 3 {
                out.push(mk_post(&pre2, &[&tri[idx[0]], &tri[idx[1]], &tri[idx[2]]], &post, false));
            }
        }
        if thorough {
            // three new read-modify-write operations on one key
            let rmw: Vec<Vec<DOp>> = vec![
                vec![DOp::RemoveIf(0, 50)],
                vec![DOp::RemoveIfMut(0, 50, 1000)],
                vec![DOp::Retain(50, 1000)],
                vec![DOp::AlterAll(1000)],
                vec![DOp::TryGetMut(0, 1000)],
                vec![DOp::TryEntry(0, 3)],
                vec![DOp::GetMut(0, 1000)],
                vec![DOp::IterMut(1000)],
                vec![DOp::EntryAndModify(0, 1000, 3)],
                vec![DOp::EntryDo(0, OccAct::ReplaceWith(50, 1000), VacAct::Insert(3))],
                vec![DOp::EntryDo(0, OccAct::IntoRef(1000), VacAct::InsertEntry(3))],
                vec![DOp::EntryDo(0, OccAct::Remove, VacAct::Leave)],
            ];
            for idx in nondecreasing_tuples(rmw.len(), 3) {
                out.push(mk_post(&pre2, &[&rmw[idx[0]], &rmw[idx[1]], &rmw[idx[2]]], &post, false));
            }
        }
        if !thorough {
            let a = DOp::Alter(0, 100);
            out.push(mk_post(&pre2, &[&vec![DOp::RemoveIf(0, 50)], &vec![a.clone()], &vec![DOp::TryGetMut(0, 1000)]], &post, false));
            out.push(mk_post(&pre2, &[&vec![DOp::Retain(50, 1000)], &vec![a.clone()], &vec![DOp::EntryAndModify(0, 1000, 3)]], &post, false));
            out.push(mk_post(&pre2, &[&vec![DOp::IterMut(1000)], &vec![DOp::TryEntry(2, 3)], &vec![DOp::EntryDo(0, OccAct::ReplaceWith(50, 1000), VacAct::Insert(3))]], &post, false));
        }
    }
    // B6: DashSet, the same scheme
    {
        let spre = [DOp::SInsert(0)];
        let post = [DOp::SIter];
        let news = new_set_bodies();
        let partners = set_partners();
        for (i, n) in news.iter().enumerate() {
            for p in &partners {
                out.push(mk_post(&spre, &[n, p], &post, false));
            }
            out.push(mk_post(&spre, &[n, n], &post, false));
            out.push(mk_post(&[], &[n, &partners[0]], &post, false));
            if thorough {
                for n2 in &news[i + 1..] {
                    out.push(mk_post(&spre, &[n, n2], &post, false));
                    for p in &partners[..3] {
                        out.push(mk_post(&spre, &[n, n2, p], &post, false));
                    }
                }
            }
        }
    }
    // B4: a thread reads the map while holding a Ref of its own (legal with the real dashmap)
    {
        let reads = [DOp::Get(0), DOp::Get(1), DOp::Len, DOp::Iter, DOp::ContainsKey(0), DOp::IsEmpty, DOp::View(0), DOp::Capacity, DOp::CloneMap, DOp::TryGet(0), DOp::TryGet(1)];
        let others: Vec<Vec<DOp>> = vec![vec![], vec![DOp::Insert(1, 1)], vec![DOp::Get(0)], vec![DOp::Remove(0)]];
        for r in &reads {
            for o in &others {
                let a = vec![DOp::GetHold(0), r.clone(), DOp::DropHeld];
                if o.is_empty() {
                    out.push(mk(&pre, &[&a], true));
                } else {
                    out.push(mk(&pre, &[&a, o], true));
                }
            }
        }
        for r in [DOp::SContains(0), DOp::SIsEmpty, DOp::SLen, DOp::SIter, DOp::SCapacity] {
            let a = vec![DOp::SGetHold(0), r, DOp::SDropHeld];
            out.push(mk(&[DOp::SInsert(0)], &[&a], true));
        }
    }
    out.sort_by_key(|p| p.size());
    out
}
