//! vx-c20 — check of property C20: the parking_lot / dashmap / deterministic collections / rand /
//! lazy_static replacements keep their contracts.
//!
//! Parts: (A) `pl` E2 family (lock_api contract model), (B) `dash` E2 family (plain map + single
//! lock), (C) exhaustive enumeration of operation histories of the deterministic collections
//! (in-process twice + a separate child process), (D) `wrand` (model check with the constant data
//! menu + C01 replay oracle) and `wiso` (C14 isolation oracle) families over the rand / lazy_static
//! wrappers.
mod coll;
mod fam_dash;
mod fam_pl;
mod fam_wiso;
mod fam_wrand;
mod stackcache;

use serde_json::json;
use vx::common::{finish, CheckCtx, CheckResult, Tier};
use vx::drive::{self, FamRunner, FamilyDyn, Mode, VKind};

fn registry() -> Vec<Box<dyn FamilyDyn>> {
    vec![
        Box::new(FamRunner::new(fam_pl::program_set)),
        Box::new(FamRunner::new(fam_dash::program_set)),
        Box::new(FamRunner::new(fam_wrand::program_set)),
        Box::new(FamRunner::new(fam_wiso::program_set)),
    ]
}

fn family(name: &str) -> Box<dyn FamilyDyn> {
    registry().into_iter().find(|f| f.name() == name).unwrap_or_else(|| {
        eprintln!("MACHINERY-ERROR: unknown family {}", name);
        std::process::exit(2)
    })
}

fn cov_u64(res: &CheckResult, k: &str) -> u64 {
    res.coverage.get(k).and_then(|v| v.as_u64()).unwrap_or(0)
}

/// Run one E2 part and record its own counts under `part`.
fn run_part(ctx: &CheckCtx, res: &mut CheckResult, part: &str, items: &[(&str, &str, Mode)], wanted: &[VKind], deadline: f64) {
    let keys = ["programs", "evaluations", "distinct_nontrivial", "states", "transitions", "traces_validated_against_impl", "scheduling_decisions", "programs_full_tree", "programs_capped", "programs_skipped_deadline"];
    let before: Vec<u64> = keys.iter().map(|k| cov_u64(res, k)).collect();
    let nf = res.findings.len();
    let t0 = std::time::Instant::now();
    vx::checks::run_e2_with(ctx, res, items, wanted, deadline, &family);
    let mut m = serde_json::Map::new();
    for (k, b) in keys.iter().zip(before) {
        m.insert(k.to_string(), json!(cov_u64(res, k) - b));
    }
    m.insert("findings".into(), json!(res.findings.len() - nf));
    m.insert("wall_s".into(), json!(t0.elapsed().as_secs_f64()));
    res.cov(part, serde_json::Value::Object(m));
}

fn c20(ctx: &CheckCtx) -> CheckResult {
    let mut res = CheckResult::new("model_checking");
    let thorough = ctx.tier.is_thorough();
    let set = if thorough { "thorough" } else { "quick" };
    let total_deadline: f64 = if thorough { 1380.0 } else { 38.0 };
    let t0 = std::time::Instant::now();
    let left = |frac: f64| -> f64 { ((total_deadline - t0.elapsed().as_secs_f64()) * frac).max(2.0) };

    // (C) runs in background threads / child processes while the E2 parts use the worker processes
    let coll_handle = {
        let thorough = thorough;
        std::thread::spawn(move || coll::run(thorough))
    };

    let conf = Mode {
        complete: false,
        ..Mode::default()
    };
    let wanted = [VKind::Sound, VKind::Enabled, VKind::Ending, VKind::Abort];
    // (A) parking_lot
    run_part(ctx, &mut res, "part_A_parking_lot", &[("pl", set, conf.clone())], &wanted, left(0.55));
    // (B) dashmap
    run_part(ctx, &mut res, "part_B_dashmap", &[("dash", set, conf.clone())], &wanted, left(0.6));
    // (D)(i) rand wrapper: every value is what the scheduler handed out (model check under the
    // constant data menu), and every execution replays identically from its recorded schedule
    let replay = Mode {
        replay_check: true,
        seed: ctx.seed,
        max_execs: 50_000,
        ..Mode::default()
    };
    let mut wanted_d = wanted.to_vec();
    wanted_d.push(VKind::Other("Replay".into()));
    wanted_d.push(VKind::Other("Isolation".into()));
    let mut items_d: Vec<(&str, &str, Mode)> = vec![("wrand", set, conf.clone()), ("wrand", set, replay.clone())];
    if thorough {
        items_d.push(("wrand", set, Mode { seed: 1, ..replay.clone() }));
        items_d.push(("wrand", set, Mode { seed: 0xdead_beef, ..replay.clone() }));
    }
    run_part(ctx, &mut res, "part_D_rand_wrapper", &items_d, &wanted_d, left(0.6));
    // (D)(ii) lazy_static wrapper: re-initialised per execution (C14 oracle)
    let iso = Mode {
        iso_check: true,
        iso_max_b: if thorough { 24 } else { 6 },
        max_execs: if thorough { 1000 } else { 400 },
        ..Mode::default()
    };
    run_part(ctx, &mut res, "part_D_lazy_static_wrapper", &[("wiso", "quick", iso)], &wanted_d, left(0.9));

    // (C) results
    match coll_handle.join() {
        Ok(c) => c.fold_into(&mut res),
        Err(_) => res.machinery_errors.push("collections enumeration thread panicked".into()),
    }

    res.cov(
        "rule",
        format!(
            "{}; part A: programs over the lock_api operations of the parking_lot replacement (bodies generated from the per-thread guard state, pairs / triples of bodies, 1-2 locks), reference model = lock_api contract + the documented two-stage FIFO discipline, findings F7/F8 encoded as weakened models selected by the operations a program contains, plus a model-independent holder ledger over every accepted execution; part B: programs over ALL public DashMap/DashSet operations that touch the map (incl. remove_if(_mut), retain, alter(_all), view, try_get(_mut), try_entry, iter_mut, the Entry / OccupiedEntry / VacantEntry API, guard accessors, clone; closures are data-dependent: predicates on the current value, deltas added to it) on 2-3 keys, every operation paired with a racing insert / remove / alter / held Ref / held RefMut on the same key and with itself, main reads the final contents after the joins; model = plain map + one reader/writer lock held by every operation and guard, try-operations answer Locked exactly when the lock cannot be had (co-simulation = linearizability w.r.t. the sequential map, real-time order included); part C: see collections_rule; part D: rand-wrapper bodies model-checked under the explorer's constant data menu (every drawn value must be the value the scheduler handed out) and replayed from the recorded schedule string, lazy_static-wrapper bodies under the C14 pair oracle",
            vx::checks::e2_rule()
        ),
    );
    res.assumptions.push("small-scope: programs / histories up to the stated size only".into());
    res.assumptions.push("parking_lot: FIFO hand-off among blocked requests is taken from raw_rwlock.rs's own documentation (strictly fair semaphores); return values of try_* are judged against the contract only".into());
    res.assumptions.push("collections: a collection whose BuildHasher differs from the fixed one is reported even when the 3-key iteration orders happen to coincide (the hasher probe is the deterministic oracle; observed order differences are recorded as witnesses)".into());
    res
}

fn replay_file(id: &str, path: &str) -> ! {
    let s = std::fs::read_to_string(path).unwrap_or_else(|e| {
        eprintln!("cannot read {}: {}", path, e);
        std::process::exit(2)
    });
    let doc: serde_json::Value = serde_json::from_str(&s).expect("replay json");
    let r = &doc["replay"];
    println!("property {} key {}", id, doc["key"]);
    println!("reported: {}", doc["what"]);
    match r["engine"].as_str() {
        Some("e2") => {
            let fam = family(r["family"].as_str().unwrap());
            let set = r["set"].as_str().unwrap();
            let idx = r["idx"].as_u64().unwrap() as usize;
            let alts: Vec<String> = r["alts"].as_array().unwrap().iter().map(|v| v.as_str().unwrap().to_string()).collect();
            if fam.describe(set, idx) != r["program"].as_str().unwrap() {
                println!("note: program list changed since the replay file was written; using index {}", idx);
            }
            if alts.is_empty() || alts.iter().any(|a| a == "||") {
                println!("(finding concerns the whole schedule tree of the program; re-checking the program)");
                let mode = if fam.name() == "wiso" {
                    Mode {
                        iso_check: true,
                        ..Mode::default()
                    }
                } else {
                    Mode::default()
                };
                vx::common::silence_panics();
                let rep = fam.check_idx(set, idx, &mode);
                for v in rep.violations {
                    println!("  {:?}: {}", v.kind, v.what);
                }
            } else {
                vx::common::silence_panics();
                println!("{}", fam.replay(set, idx, &drive::strings_to_alts(&alts)));
            }
        }
        Some("coll") => coll::replay(r),
        other => {
            println!("no replayer for engine {:?}", other);
            std::process::exit(2);
        }
    }
    std::process::exit(0)
}

fn run_check(id: &str, tier: Tier) -> ! {
    if id != "C20" {
        eprintln!("MACHINERY-ERROR: vx-c20 only checks C20 (got {})", id);
        std::process::exit(2);
    }
    let ctx = CheckCtx::new(id, tier);
    let res = c20(&ctx);
    finish(&ctx, res)
}

fn main() {
    let args: Vec<String> = std::env::args().collect();
    match args.get(1).map(|s| s.as_str()) {
        Some("check") => {
            let id = args.get(2).cloned().unwrap_or_default();
            match args.get(3).map(|s| s.as_str()) {
                Some("--replay") => replay_file(&id, args.get(4).expect("replay path")),
                Some("thorough") => run_check(&id, Tier::Thorough),
                Some("quick") | None => {
                    let tier = match std::env::var("VERIF_TIER").as_deref() {
                        Ok("thorough") => Tier::Thorough,
                        _ => Tier::Quick,
                    };
                    run_check(&id, tier)
                }
                Some(x) => {
                    eprintln!("unknown tier {}", x);
                    std::process::exit(2)
                }
            }
        }
        Some("coll-child") => coll::child_main(&args[2..]),
        Some("coll") => {
            // coll [thorough]: part C alone
            let t0 = std::time::Instant::now();
            let c = coll::run(args.get(2).map(|s| s == "thorough").unwrap_or(false));
            let mut res = CheckResult::new("model_checking");
            c.fold_into(&mut res);
            println!("{}", serde_json::to_string_pretty(&res.coverage["part_C_collections"]).unwrap());
            for f in &res.findings {
                println!("FINDING {} :: {}\n   replay {}", f.key, f.what, f.replay);
            }
            println!("machinery {:?}; wall {:?}", res.machinery_errors, t0.elapsed());
        }
        Some("bench") => {
            if std::env::var("VX_LOUD").is_err() {
                let _orig = vx::common::mute_stderr();
                std::mem::forget(_orig);
                vx::common::silence_panics();
            }
            let fam = family(&args[2]);
            let i: usize = args[4].parse().unwrap();
            let t0 = std::time::Instant::now();
            let r = fam.check_idx(&args[3], i, &Mode::default());
            println!(
                "execs {} decisions {} violations {} in {:?}; cosim time {:?}",
                r.executions,
                r.decisions,
                r.violations.len(),
                t0.elapsed(),
                vx::drive::COSIM_NANOS.with(|c| std::time::Duration::from_nanos(c.get()))
            );
            for v in r.violations.iter().take(3) {
                println!("  {:?} [{}]: {} :: {:?}", v.kind, v.culprit, v.what, v.alts);
            }
        }
        Some("fam") => {
            // fam <family> <set> [deadline] [mode: conf|replay|iso]: run one family through the workers, print the aggregate
            let fam = family(&args[2]);
            let deadline: f64 = args.get(4).and_then(|s| s.parse().ok()).unwrap_or(600.0);
            let mode = match args.get(5).map(|s| s.as_str()) {
                Some("replay") => Mode { replay_check: true, max_execs: 50_000, ..Mode::default() },
                Some("iso") => Mode { iso_check: true, iso_max_b: 6, max_execs: 400, ..Mode::default() },
                _ => Mode { complete: false, ..Mode::default() },
            };
            let t0 = std::time::Instant::now();
            let agg = drive::run_family(fam.as_ref(), &args[3], &mode, vx::checks::nshards(), deadline);
            println!("{}", serde_json::to_string_pretty(&agg.to_json()).unwrap());
            println!("wall {:?}; machinery errors {:?}", t0.elapsed(), agg.machinery_errors);
            let mut seen = std::collections::BTreeMap::new();
            for v in &agg.violations {
                let k = format!("{:?}/{}", v.kind, v.culprit);
                let e = seen.entry(k).or_insert((0usize, v.clone()));
                e.0 += 1;
            }
            for (k, (n, v)) in seen {
                println!("== {} x{}\n   #{} {}\n   {}\n   {:?}", k, n, v.program_idx, v.program, v.what, v.alts);
            }
        }
        Some("list") => {
            // list <family> <set>: every program, one per line
            use std::io::Write;
            let fam = family(&args[2]);
            let n = fam.len(&args[3]);
            let out = std::io::stdout();
            let mut w = std::io::BufWriter::new(out.lock());
            for i in 0..n {
                if writeln!(w, "#{} {}", i, fam.describe(&args[3], i)).is_err() {
                    break;
                }
            }
        }
        Some("describe") => {
            // describe <family> <set> <idx>...
            let fam = family(&args[2]);
            println!("{} programs", fam.len(&args[3]));
            for a in &args[4..] {
                let i: usize = a.parse().unwrap();
                println!("#{} {}", i, fam.describe(&args[3], i));
            }
        }
        Some("worker") => {
            // worker <family> <set> <mode-json> <shard> <nshards> <from> <only|-> <deadline>
            if std::env::var("VX_NO_STACK_CACHE").is_err() {
                stackcache::enable();
            }
            let fam = family(&args[2]);
            let mode = drive::mode_from_json(&serde_json::from_str(&args[4]).expect("mode json"));
            let shard: usize = args[5].parse().unwrap();
            let nshards: usize = args[6].parse().unwrap();
            let from: usize = args[7].parse().unwrap();
            let only: Option<usize> = args[8].parse().ok();
            let deadline: f64 = args[9].parse().unwrap();
            drive::worker_main(fam.as_ref(), &args[3], &mode, shard, nshards, from, only, deadline);
        }
        _ => {
            eprintln!("usage: vx-c20 check C20 quick|thorough|--replay <file>");
            std::process::exit(2);
        }
    }
}
