//! Family `pl` (C20 part A): the Shuttle replacement of parking_lot's RwLock / Mutex, driven through
//! the generic lock_api guards, against a reference model written from lock_api's contract.
//!
//! Contract state of one lock: `{readers, upg (upgradable holder), writer}`.
//!   shared      needs writer = None
//!   upgradable  needs writer = None and upg = None
//!   exclusive   needs readers = {} and upg = None and writer = None
//!   upgrade     (by the upgradable holder) waits for readers = {} only; no writer can be admitted
//!               while upg is held, so it cannot be overtaken
//!   downgrade / downgrade_upgradable / downgrade_to_upgradable: always enabled, keep shared access
//!               throughout (no writer in between)
//!   failed try_* change nothing.
//! Discipline (what raw_rwlock.rs documents: two strictly fair stages — the single upgradable slot,
//! then one FIFO of blocked requests with hand-off in the releasing step): an upgradable request
//! first takes the slot, then queues like a reader; requests arriving at a non-empty FIFO queue
//! behind it.  `strict` = exactly this discipline (used for "who can run"); `loose` additionally lets
//! a try_* succeed whenever the contract state allows it (the contract does not say that a try must
//! respect the queue).
//!
//! Weakened model (recorded findings; `PlCfg::sel` names the one a program's weakened model adds as an
//! alternative behaviour, `PlCfg::allow` the one its reference model already admits — see `mk`):
//!   1 — F7: `downgrade_to_upgradable` *acquires* the upgradable slot (blocking) before it gives
//!           up exclusive access; the slot may be held by an upgradable request that is itself
//!           queued behind the writer => both block forever.
//!   2 — F8: `upgrade` queues its request for exclusive access at the BACK of the FIFO and gives
//!           up its shared access; a writer that was already waiting is served first.

use shuttle_parking_lot_impl as pl;
use vx::prog::*;

type RwL = pl::RwLock<u32>;
type MxL = pl::Mutex<u32>;
type RG = pl::RwLockReadGuard<'static, u32>;
type UG = pl::RwLockUpgradableReadGuard<'static, u32>;
type WG = pl::RwLockWriteGuard<'static, u32>;
type MG = pl::MutexGuard<'static, u32>;

#[derive(Clone, Debug, PartialEq, Eq, Hash)]
pub enum PlOp {
    Read(usize),
    TryRead(usize),
    Write(usize),
    TryWrite(usize),
    UpRead(usize),
    TryUpRead(usize),
    /// upgradable -> exclusive (blocking)
    Upgrade(usize),
    TryUpgrade(usize),
    /// exclusive -> shared
    Downgrade(usize),
    /// upgradable -> shared
    DowngradeUp(usize),
    /// exclusive -> upgradable
    DowngradeToUp(usize),
    Set(usize, u32),
    /// drop whatever guard this thread holds on the lock (none: nothing happens)
    Unlock(usize),
    UnlockFair(usize),
    MLock(usize),
    MTry(usize),
    MSet(usize, u32),
    MUnlock(usize),
    MUnlockFair(usize),
}

impl PlOp {
    pub fn obj(&self) -> usize {
        use PlOp::*;
        match self {
            Read(i) | TryRead(i) | Write(i) | TryWrite(i) | UpRead(i) | TryUpRead(i) | Upgrade(i) | TryUpgrade(i) | Downgrade(i) | DowngradeUp(i) | DowngradeToUp(i) | Set(i, _)
            | Unlock(i) | UnlockFair(i) | MLock(i) | MTry(i) | MSet(i, _) | MUnlock(i) | MUnlockFair(i) => *i,
        }
    }
}

#[derive(Clone, Debug, PartialEq, Eq, Hash, PartialOrd, Ord)]
pub enum PlRes {
    Unit,
    /// tolerant unlock with no guard held
    Nothing,
    /// access obtained / converted; the value seen through the guard
    Locked(u32),
    WouldBlock,
}

#[derive(Clone, Copy, Debug, PartialEq, Eq, Hash)]
pub enum Kind {
    Rw,
    Mx,
}

#[derive(Clone, Debug)]
pub struct PlCfg {
    pub objs: Vec<Kind>,
    /// which recorded finding the weakened model of this program adds (1 = F7, 2 = F8, 0 = none);
    /// derived from the operations that occur in the program
    pub sel: u8,
    /// recorded findings that are part of this program's *reference* model.  Non-zero only for
    /// programs that contain both conversions: such a program is generated twice, once attributing
    /// F7 (with F8 allowed) and once attributing F8 (with F7 allowed), so that every deviation is
    /// reported under exactly the finding it belongs to.
    pub allow: u8,
}

pub enum Obj {
    Rw(RwL),
    Mx(MxL),
}

pub struct PlObjs {
    o: Vec<Obj>,
}

pub enum Held {
    None,
    R(RG),
    U(UG),
    W(WG),
    M(MG),
}

pub struct PlLocals {
    // guards borrow the objects; the objects live in the execution's context, which outlives every
    // thread; leftover guards are leaked in `end_thread`
    h: Vec<Held>,
}

// ---------------------------------------------------------------------------------------------
// model
// ---------------------------------------------------------------------------------------------

#[derive(Clone, Debug, PartialEq, Eq, Hash)]
pub enum QK {
    S,
    U,
    X,
    /// upgrade announced, own shared access not yet traded in
    UpWait,
    Up,
    /// F8 variant of the two: queued at the back, shared access given up while waiting
    UpWaitBack,
}

#[derive(Clone, Debug, PartialEq, Eq, Hash)]
pub struct Lk {
    readers: Vec<u8>,
    upg: Option<u8>,
    writer: Option<u8>,
    data: u32,
    /// holder of the single upgradable slot (an upgradable holder, or a request that passed the
    /// first stage, or an operation that is about to give the slot back)
    slot: Option<u8>,
    /// FIFO in front of the slot
    uq: Vec<u8>,
    /// FIFO of blocked requests
    q: Vec<(u8, QK)>,
}

impl Lk {
    fn new() -> Lk {
        Lk {
            readers: vec![],
            upg: None,
            writer: None,
            data: 0,
            slot: None,
            uq: vec![],
            q: vec![],
        }
    }
    /// the lock_api contract: may `t` be given access of kind `k` now?
    fn compat(&self, t: u8, k: &QK) -> bool {
        match k {
            QK::S => self.writer.is_none(),
            QK::U => self.writer.is_none() && self.upg.is_none(),
            QK::X => self.writer.is_none() && self.readers.is_empty() && self.upg.is_none(),
            QK::UpWait | QK::UpWaitBack => false,
            QK::Up => self.writer.is_none() && self.readers.is_empty() && (self.upg.is_none() || self.upg == Some(t)),
        }
    }
    fn apply(&mut self, t: u8, k: &QK) {
        match k {
            QK::S => {
                self.readers.push(t);
                self.readers.sort();
            }
            QK::U => self.upg = Some(t),
            QK::X => self.writer = Some(t),
            QK::Up => {
                self.writer = Some(t);
                self.upg = None;
            }
            QK::UpWait | QK::UpWaitBack => unreachable!(),
        }
        self.check();
    }
    /// invariants of the contract, asserted in every model state that grants access
    fn check(&self) {
        if self.writer.is_some() {
            assert!(self.readers.is_empty() && self.upg.is_none(), "model broke exclusion: {:?}", self);
        }
    }
    /// hand-off: grant from the head of the FIFO while the head is compatible
    fn pump(&mut self) {
        while let Some((t, k)) = self.q.first().cloned() {
            if self.compat(t, &k) {
                self.q.remove(0);
                self.apply(t, &k);
            } else {
                break;
            }
        }
    }
    fn pump_slot(&mut self) {
        if self.slot.is_none() && !self.uq.is_empty() {
            self.slot = Some(self.uq.remove(0));
        }
    }
    fn release_slot(&mut self, t: u8) {
        if self.slot == Some(t) {
            self.slot = None;
            self.pump_slot();
        }
    }
    fn queued(&self, t: u8) -> bool {
        self.q.iter().any(|e| e.0 == t)
    }
}

#[derive(Clone, Debug, PartialEq, Eq, Hash)]
pub struct PlM {
    l: Vec<Lk>,
    sel: u8,
    allow: u8,
}

pub const F7_NAME: &str = "downgrade_to_upgradable-waits-for-the-upgradable-slot-held-by-a-queued-upgradable-reader";
pub const F8_NAME: &str = "upgrade-queues-behind-an-already-waiting-writer";

pub struct PlFam;

unsafe fn ext<'a, T>(r: &'a T) -> &'static T {
    std::mem::transmute(r)
}

type Steps = Vec<MStep<PlM, PlRes>>;

impl PlFam {
    /// blocking request of kind `k`: phase `base` = arrive (admitted at once iff the FIFO is empty
    /// and the contract allows it, else enqueued), phase `base+1` = wait for the hand-off
    fn blocking(mut n: PlM, i: usize, t: u8, k: QK, phase: u8, base: u8) -> Steps {
        let x = &mut n.l[i];
        if phase == base {
            if x.q.is_empty() && x.compat(t, &k) {
                x.apply(t, &k);
                let v = x.data;
                vec![MStep::Done(n, PlRes::Locked(v))]
            } else {
                x.q.push((t, k));
                vec![MStep::Cont(n, base + 1)]
            }
        } else if x.queued(t) {
            vec![]
        } else {
            let v = x.data;
            vec![MStep::Done(n, PlRes::Locked(v))]
        }
    }
    fn try_kind(n: PlM, i: usize, t: u8, k: QK, strict: bool) -> Steps {
        let x = &n.l[i];
        let c = x.compat(t, &k);
        let ok = c && x.q.is_empty();
        let mut out = Vec::new();
        if ok || (!strict && c) {
            let mut n2 = n.clone();
            n2.l[i].apply(t, &k);
            let v = n2.l[i].data;
            out.push(MStep::Done(n2, PlRes::Locked(v)));
        }
        if !ok {
            out.push(MStep::Done(n, PlRes::WouldBlock));
        }
        out
    }
    fn unlock(mut n: PlM, i: usize, t: u8, phase: u8) -> Steps {
        let x = &mut n.l[i];
        if phase == 1 {
            // second half of unlocking an upgradable guard: the slot
            x.release_slot(t);
            return vec![MStep::Done(n, PlRes::Unit)];
        }
        if x.writer == Some(t) {
            x.writer = None;
            x.pump();
            vec![MStep::Done(n, PlRes::Unit)]
        } else if x.upg == Some(t) {
            x.upg = None;
            x.pump();
            vec![MStep::Cont(n, 1)]
        } else if let Some(p) = x.readers.iter().position(|r| *r == t) {
            x.readers.remove(p);
            x.pump();
            vec![MStep::Done(n, PlRes::Unit)]
        } else {
            vec![MStep::Done(n, PlRes::Nothing)]
        }
    }
}

impl Family for PlFam {
    type Op = PlOp;
    type Res = PlRes;
    type Cfg = PlCfg;
    type Objs = PlObjs;
    type Locals = PlLocals;
    type M = PlM;
    const NAME: &'static str = "pl";

    fn make_objs(cfg: &PlCfg, _n: usize) -> PlObjs {
        PlObjs {
            o: cfg
                .objs
                .iter()
                .map(|k| match k {
                    Kind::Rw => Obj::Rw(RwL::new(0)),
                    Kind::Mx => Obj::Mx(MxL::new(0)),
                })
                .collect(),
        }
    }
    fn new_locals(cfg: &PlCfg, _t: usize) -> PlLocals {
        PlLocals {
            h: cfg.objs.iter().map(|_| Held::None).collect(),
        }
    }
    fn end_thread(_o: &PlObjs, l: PlLocals, _t: usize) {
        for g in l.h {
            std::mem::forget(g);
        }
    }
    fn weakening(cfg: &PlCfg) -> Option<&'static str> {
        match cfg.sel {
            1 => Some(F7_NAME),
            2 => Some(F8_NAME),
            _ => None,
        }
    }
    fn objects_of(op: &PlOp) -> Vec<u32> {
        vec![0x700 + op.obj() as u32]
    }

    fn exec(o: &PlObjs, l: &mut PlLocals, _t: usize, op: &PlOp) -> PlRes {
        use lock_api::{MutexGuard as LMG, RwLockReadGuard as LRG, RwLockUpgradableReadGuard as LUG, RwLockWriteGuard as LWG};
        let i = op.obj();
        let rw = || -> &'static RwL {
            match &o.o[i] {
                Obj::Rw(r) => unsafe { ext(r) },
                _ => panic!("ill-formed program: rwlock op on a mutex"),
            }
        };
        let mx = || -> &'static MxL {
            match &o.o[i] {
                Obj::Mx(m) => unsafe { ext(m) },
                _ => panic!("ill-formed program: mutex op on a rwlock"),
            }
        };
        let free = |h: &Held| matches!(h, Held::None);
        match op {
            PlOp::Read(_) => {
                assert!(free(&l.h[i]), "ill-formed program");
                let g = rw().read();
                let v = *g;
                l.h[i] = Held::R(g);
                PlRes::Locked(v)
            }
            PlOp::TryRead(_) => match rw().try_read() {
                Some(g) => {
                    let v = *g;
                    assert!(free(&l.h[i]), "a re-entrant try_read that must fail succeeded");
                    l.h[i] = Held::R(g);
                    PlRes::Locked(v)
                }
                None => PlRes::WouldBlock,
            },
            PlOp::Write(_) => {
                assert!(free(&l.h[i]), "ill-formed program");
                let g = rw().write();
                let v = *g;
                l.h[i] = Held::W(g);
                PlRes::Locked(v)
            }
            PlOp::TryWrite(_) => match rw().try_write() {
                Some(g) => {
                    let v = *g;
                    assert!(free(&l.h[i]), "a re-entrant try_write that must fail succeeded");
                    l.h[i] = Held::W(g);
                    PlRes::Locked(v)
                }
                None => PlRes::WouldBlock,
            },
            PlOp::UpRead(_) => {
                assert!(free(&l.h[i]), "ill-formed program");
                let g = rw().upgradable_read();
                let v = *g;
                l.h[i] = Held::U(g);
                PlRes::Locked(v)
            }
            PlOp::TryUpRead(_) => match rw().try_upgradable_read() {
                Some(g) => {
                    let v = *g;
                    assert!(free(&l.h[i]), "a re-entrant try_upgradable_read that must fail succeeded");
                    l.h[i] = Held::U(g);
                    PlRes::Locked(v)
                }
                None => PlRes::WouldBlock,
            },
            PlOp::Upgrade(_) => match std::mem::replace(&mut l.h[i], Held::None) {
                Held::U(g) => {
                    let w = LUG::upgrade(g);
                    let v = *w;
                    l.h[i] = Held::W(w);
                    PlRes::Locked(v)
                }
                _ => panic!("ill-formed program: upgrade without upgradable guard"),
            },
            PlOp::TryUpgrade(_) => match std::mem::replace(&mut l.h[i], Held::None) {
                Held::U(g) => match LUG::try_upgrade(g) {
                    Ok(w) => {
                        let v = *w;
                        l.h[i] = Held::W(w);
                        PlRes::Locked(v)
                    }
                    Err(g) => {
                        l.h[i] = Held::U(g);
                        PlRes::WouldBlock
                    }
                },
                _ => panic!("ill-formed program: try_upgrade without upgradable guard"),
            },
            PlOp::Downgrade(_) => match std::mem::replace(&mut l.h[i], Held::None) {
                Held::W(g) => {
                    let r = LWG::downgrade(g);
                    let v = *r;
                    l.h[i] = Held::R(r);
                    PlRes::Locked(v)
                }
                _ => panic!("ill-formed program: downgrade without write guard"),
            },
            PlOp::DowngradeUp(_) => match std::mem::replace(&mut l.h[i], Held::None) {
                Held::U(g) => {
                    let r = LUG::downgrade(g);
                    let v = *r;
                    l.h[i] = Held::R(r);
                    PlRes::Locked(v)
                }
                _ => panic!("ill-formed program: downgrade_upgradable without upgradable guard"),
            },
            PlOp::DowngradeToUp(_) => match std::mem::replace(&mut l.h[i], Held::None) {
                Held::W(g) => {
                    let u = LWG::downgrade_to_upgradable(g);
                    let v = *u;
                    l.h[i] = Held::U(u);
                    PlRes::Locked(v)
                }
                _ => panic!("ill-formed program: downgrade_to_upgradable without write guard"),
            },
            PlOp::Set(_, v) => match &mut l.h[i] {
                Held::W(g) => {
                    **g = *v;
                    PlRes::Unit
                }
                _ => panic!("ill-formed program: Set without write guard"),
            },
            PlOp::MSet(_, v) => match &mut l.h[i] {
                Held::M(g) => {
                    **g = *v;
                    PlRes::Unit
                }
                _ => panic!("ill-formed program: MSet without guard"),
            },
            PlOp::Unlock(_) | PlOp::MUnlock(_) => match std::mem::replace(&mut l.h[i], Held::None) {
                Held::None => PlRes::Nothing,
                Held::R(g) => {
                    drop(g);
                    PlRes::Unit
                }
                Held::U(g) => {
                    drop(g);
                    PlRes::Unit
                }
                Held::W(g) => {
                    drop(g);
                    PlRes::Unit
                }
                Held::M(g) => {
                    drop(g);
                    PlRes::Unit
                }
            },
            PlOp::UnlockFair(_) | PlOp::MUnlockFair(_) => match std::mem::replace(&mut l.h[i], Held::None) {
                Held::None => PlRes::Nothing,
                Held::R(g) => {
                    LRG::unlock_fair(g);
                    PlRes::Unit
                }
                Held::U(g) => {
                    LUG::unlock_fair(g);
                    PlRes::Unit
                }
                Held::W(g) => {
                    LWG::unlock_fair(g);
                    PlRes::Unit
                }
                Held::M(g) => {
                    LMG::unlock_fair(g);
                    PlRes::Unit
                }
            },
            PlOp::MLock(_) => {
                assert!(free(&l.h[i]), "ill-formed program");
                let g = mx().lock();
                let v = *g;
                l.h[i] = Held::M(g);
                PlRes::Locked(v)
            }
            PlOp::MTry(_) => match mx().try_lock() {
                Some(g) => {
                    let v = *g;
                    assert!(free(&l.h[i]), "a re-entrant try_lock that must fail succeeded");
                    l.h[i] = Held::M(g);
                    PlRes::Locked(v)
                }
                None => PlRes::WouldBlock,
            },
        }
    }

    fn m_init(cfg: &PlCfg, _n: usize) -> PlM {
        PlM {
            l: cfg.objs.iter().map(|_| Lk::new()).collect(),
            sel: cfg.sel,
            allow: cfg.allow,
        }
    }

    fn m_step(m: &PlM, t: usize, op: &PlOp, phase: u8, strict: bool) -> Steps {
        let t = t as u8;
        let f7 = m.allow & 1 != 0 || (weak() && m.sel & 1 != 0);
        let f8 = m.allow & 2 != 0 || (weak() && m.sel & 2 != 0);
        let mut n = m.clone();
        let i = op.obj();
        match op {
            PlOp::Read(_) => Self::blocking(n, i, t, QK::S, phase, 0),
            PlOp::Write(_) | PlOp::MLock(_) => Self::blocking(n, i, t, QK::X, phase, 0),
            PlOp::UpRead(_) => {
                let x = &mut n.l[i];
                match phase {
                    0 => {
                        if x.uq.is_empty() && x.slot.is_none() {
                            x.slot = Some(t);
                            vec![MStep::Cont(n, 2)]
                        } else {
                            x.uq.push(t);
                            vec![MStep::Cont(n, 1)]
                        }
                    }
                    1 => {
                        if x.slot == Some(t) {
                            vec![MStep::Cont(n, 2)]
                        } else {
                            vec![]
                        }
                    }
                    _ => Self::blocking(n, i, t, QK::U, phase, 2),
                }
            }
            PlOp::TryRead(_) => Self::try_kind(n, i, t, QK::S, strict),
            PlOp::TryWrite(_) | PlOp::MTry(_) => Self::try_kind(n, i, t, QK::X, strict),
            PlOp::TryUpRead(_) => {
                let x = &mut n.l[i];
                match phase {
                    0 => {
                        if x.uq.is_empty() && x.slot.is_none() {
                            x.slot = Some(t);
                            vec![MStep::Cont(n, 1)]
                        } else {
                            vec![MStep::Done(n, PlRes::WouldBlock)]
                        }
                    }
                    1 => {
                        let c = x.compat(t, &QK::U);
                        let ok = c && x.q.is_empty();
                        let mut out = Vec::new();
                        if ok || (!strict && c) {
                            let mut n2 = n.clone();
                            n2.l[i].apply(t, &QK::U);
                            let v = n2.l[i].data;
                            out.push(MStep::Done(n2, PlRes::Locked(v)));
                        }
                        if !ok {
                            out.push(MStep::Cont(n, 2));
                        }
                        out
                    }
                    _ => {
                        // roll the slot back: nothing is left behind
                        x.release_slot(t);
                        vec![MStep::Done(n, PlRes::WouldBlock)]
                    }
                }
            }
            PlOp::Unlock(_) | PlOp::UnlockFair(_) | PlOp::MUnlock(_) | PlOp::MUnlockFair(_) => Self::unlock(n, i, t, phase),
            PlOp::Set(_, v) | PlOp::MSet(_, v) => {
                assert_eq!(n.l[i].writer, Some(t), "ill-formed program");
                n.l[i].data = *v;
                vec![MStep::Done(n, PlRes::Unit)]
            }
            PlOp::Downgrade(_) => {
                let x = &mut n.l[i];
                assert_eq!(x.writer, Some(t), "ill-formed program");
                x.writer = None;
                x.apply(t, &QK::S);
                x.pump();
                let v = x.data;
                vec![MStep::Done(n, PlRes::Locked(v))]
            }
            PlOp::DowngradeUp(_) => {
                let x = &mut n.l[i];
                assert_eq!(x.upg, Some(t), "ill-formed program");
                x.upg = None;
                x.apply(t, &QK::S);
                x.release_slot(t);
                x.pump();
                let v = x.data;
                vec![MStep::Done(n, PlRes::Locked(v))]
            }
            PlOp::DowngradeToUp(_) => {
                let x = &mut n.l[i];
                match phase {
                    0 => {
                        assert_eq!(x.writer, Some(t), "ill-formed program");
                        if x.slot.is_none() && x.uq.is_empty() {
                            x.slot = Some(t);
                            vec![MStep::Cont(n, 1)]
                        } else {
                            // contract: a downgrade never waits (the writer excludes every other
                            // upgradable *holder*; a mere request holding the slot does not count)
                            let mut out = vec![MStep::Cont(n.clone(), 1)];
                            if f7 {
                                // F7: waits for the slot like a fresh upgradable request
                                n.l[i].uq.push(t);
                                out.push(MStep::Cont(n, 2));
                            }
                            out
                        }
                    }
                    2 => {
                        if x.slot == Some(t) {
                            vec![MStep::Cont(n, 1)]
                        } else {
                            vec![]
                        }
                    }
                    _ => {
                        x.writer = None;
                        x.apply(t, &QK::U);
                        x.pump();
                        let v = x.data;
                        vec![MStep::Done(n, PlRes::Locked(v))]
                    }
                }
            }
            PlOp::Upgrade(_) => {
                let x = &mut n.l[i];
                match phase {
                    0 => {
                        assert_eq!(x.upg, Some(t), "ill-formed program");
                        let mut out = Vec::new();
                        if f8 && !x.q.is_empty() {
                            // F8: behind everything that is already waiting
                            let mut n2 = n.clone();
                            n2.l[i].q.push((t, QK::UpWaitBack));
                            out.push(MStep::Cont(n2, 1));
                        }
                        // contract: the upgrade waits for current shared holders only
                        n.l[i].q.insert(0, (t, QK::UpWait));
                        out.push(MStep::Cont(n, 1));
                        out
                    }
                    1 => {
                        for e in x.q.iter_mut() {
                            if e.0 == t {
                                if e.1 == QK::UpWaitBack {
                                    // F8: the upgrader's own shared access is given up while it waits
                                    x.upg = None;
                                }
                                e.1 = QK::Up;
                            }
                        }
                        x.pump();
                        vec![MStep::Cont(n, 2)]
                    }
                    2 => {
                        if x.queued(t) {
                            vec![]
                        } else {
                            vec![MStep::Cont(n, 3)]
                        }
                    }
                    _ => {
                        assert_eq!(x.writer, Some(t));
                        x.release_slot(t);
                        let v = x.data;
                        vec![MStep::Done(n, PlRes::Locked(v))]
                    }
                }
            }
            PlOp::TryUpgrade(_) => {
                let x = &mut n.l[i];
                match phase {
                    0 => {
                        assert_eq!(x.upg, Some(t), "ill-formed program");
                        let c = x.readers.is_empty();
                        let ok = c && x.q.is_empty();
                        let mut out = Vec::new();
                        if ok || (!strict && c) {
                            let mut n2 = n.clone();
                            n2.l[i].apply(t, &QK::Up);
                            out.push(MStep::Cont(n2, 1));
                        }
                        if !ok {
                            out.push(MStep::Done(n, PlRes::WouldBlock));
                        }
                        out
                    }
                    _ => {
                        x.release_slot(t);
                        let v = x.data;
                        vec![MStep::Done(n, PlRes::Locked(v))]
                    }
                }
            }
        }
    }

    /// Holder ledger, independent of the model: replays the log in its own order.  Access is counted
    /// from the return of the acquiring operation; giving up access is counted from the *call* of the
    /// releasing operation when that operation has several steps (conservative), else from its return.
    fn monitor(p: &Program<PlFam>, rec: &ExecRecord<PlRes>) -> Option<(String, String)> {
        #[derive(Clone, Default)]
        struct L {
            r: Vec<usize>,
            u: Option<usize>,
            w: Option<usize>,
            data: u32,
        }
        let mut ls: Vec<L> = p.cfg.objs.iter().map(|_| L::default()).collect();
        for e in &rec.log {
            let op = match p.threads[e.thread].get(e.op) {
                Some(GOp::Op(o)) => o,
                _ => continue,
            };
            let i = op.obj();
            let t = e.thread;
            let x = &mut ls[i];
            match &e.kind {
                EKind::Call => {
                    // multi-step releases: unlocking an upgradable guard
                    if matches!(op, PlOp::Unlock(_) | PlOp::UnlockFair(_)) && x.u == Some(t) {
                        x.u = None;
                    }
                    // copy of a two-conversion program whose reference admits F8 (reported by the
                    // other copy): the upgrader gives up its shared access while it waits
                    if p.cfg.allow & 2 != 0 && matches!(op, PlOp::Upgrade(_)) && x.u == Some(t) {
                        x.u = None;
                    }
                }
                EKind::Ret(GRes::R(r)) => {
                    let got = match r {
                        PlRes::Locked(v) => Some(*v),
                        _ => None,
                    };
                    let bad = |what: &str, x: &L| Some((format!("{:?}", op).split('(').next().unwrap().to_string(), format!("ledger: thread {} {} while readers={:?} upgradable={:?} writer={:?} (log order)", t, what, x.r, x.u, x.w)));
                    match op {
                        PlOp::Read(_) | PlOp::TryRead(_) => {
                            if got.is_some() {
                                if x.w.is_some() {
                                    return bad("obtained shared access", x);
                                }
                                x.r.push(t);
                            }
                        }
                        PlOp::UpRead(_) | PlOp::TryUpRead(_) => {
                            if got.is_some() {
                                if x.w.is_some() || x.u.is_some() {
                                    return bad("obtained upgradable access", x);
                                }
                                x.u = Some(t);
                            }
                        }
                        PlOp::Write(_) | PlOp::TryWrite(_) | PlOp::MLock(_) | PlOp::MTry(_) => {
                            if got.is_some() {
                                if x.w.is_some() || x.u.is_some() || !x.r.is_empty() {
                                    return bad("obtained exclusive access", x);
                                }
                                x.w = Some(t);
                            }
                        }
                        PlOp::Upgrade(_) | PlOp::TryUpgrade(_) => {
                            if got.is_some() {
                                let had = x.u == Some(t) || (p.cfg.allow & 2 != 0 && matches!(op, PlOp::Upgrade(_)) && x.u.is_none());
                                if x.w.is_some() || !x.r.is_empty() || !had {
                                    return bad("upgraded to exclusive access", x);
                                }
                                x.u = None;
                                x.w = Some(t);
                            }
                        }
                        PlOp::Downgrade(_) => {
                            x.w = None;
                            x.r.push(t);
                        }
                        PlOp::DowngradeUp(_) => {
                            x.u = None;
                            x.r.push(t);
                        }
                        PlOp::DowngradeToUp(_) => {
                            x.w = None;
                            x.u = Some(t);
                        }
                        PlOp::Set(_, v) | PlOp::MSet(_, v) => {
                            if x.w != Some(t) {
                                return bad("wrote the data", x);
                            }
                            x.data = *v;
                        }
                        PlOp::Unlock(_) | PlOp::UnlockFair(_) | PlOp::MUnlock(_) | PlOp::MUnlockFair(_) => {
                            if x.w == Some(t) {
                                x.w = None;
                            } else if let Some(p) = x.r.iter().position(|r| *r == t) {
                                x.r.remove(p);
                            }
                        }
                    }
                    if let Some(v) = got {
                        if v != x.data {
                            return Some((
                                format!("{:?}", op).split('(').next().unwrap().to_string(),
                                format!("ledger: thread {} saw value {} through its guard but the last value written under exclusive access is {}", t, v, x.data),
                            ));
                        }
                    }
                }
                _ => {}
            }
        }
        None
    }
}

// ---------------------------------------------------------------------------------------------
// program generation
// ---------------------------------------------------------------------------------------------

#[derive(Clone, Copy, PartialEq, Eq, Debug)]
enum Sym {
    N,
    R,
    U,
    W,
    /// after a try whose outcome is not known statically: only the tolerant unlock may follow
    Maybe,
}

#[derive(Clone, Copy)]
pub struct GenOpt {
    pub fair: bool,
    pub mustfail: bool,
    pub reacquire: bool,
    pub trys: bool,
    pub transitions: bool,
}

fn thread_seqs(objs: &[Kind], k: usize, o: GenOpt) -> Vec<Vec<PlOp>> {
    fn rec(objs: &[Kind], k: usize, o: GenOpt, cur: &mut Vec<PlOp>, st: &mut Vec<Sym>, released: &mut Vec<bool>, out: &mut Vec<Vec<PlOp>>) {
        if !cur.is_empty() {
            out.push(cur.clone());
        }
        if cur.len() == k {
            return;
        }
        for i in 0..objs.len() {
            let s = st[i];
            let mut nexts: Vec<(PlOp, Sym)> = Vec::new();
            match (objs[i], s) {
                (Kind::Rw, Sym::N) => {
                    if o.reacquire || !released[i] {
                        nexts.push((PlOp::Read(i), Sym::R));
                        nexts.push((PlOp::Write(i), Sym::W));
                        nexts.push((PlOp::UpRead(i), Sym::U));
                        if o.trys {
                            nexts.push((PlOp::TryRead(i), Sym::Maybe));
                            nexts.push((PlOp::TryWrite(i), Sym::Maybe));
                            nexts.push((PlOp::TryUpRead(i), Sym::Maybe));
                        }
                    }
                }
                (Kind::Rw, Sym::R) => {
                    nexts.push((PlOp::Unlock(i), Sym::N));
                    if o.fair {
                        nexts.push((PlOp::UnlockFair(i), Sym::N));
                    }
                    if o.mustfail {
                        nexts.push((PlOp::TryWrite(i), Sym::R));
                    }
                }
                (Kind::Rw, Sym::U) => {
                    if o.transitions {
                        nexts.push((PlOp::Upgrade(i), Sym::W));
                        nexts.push((PlOp::TryUpgrade(i), Sym::Maybe));
                        nexts.push((PlOp::DowngradeUp(i), Sym::R));
                    }
                    nexts.push((PlOp::Unlock(i), Sym::N));
                    if o.fair {
                        nexts.push((PlOp::UnlockFair(i), Sym::N));
                    }
                    if o.mustfail {
                        nexts.push((PlOp::TryWrite(i), Sym::U));
                        nexts.push((PlOp::TryUpRead(i), Sym::U));
                    }
                }
                (Kind::Rw, Sym::W) => {
                    if !cur.iter().any(|c| matches!(c, PlOp::Set(j, _) if *j == i)) {
                        nexts.push((PlOp::Set(i, 1), Sym::W));
                    }
                    if o.transitions {
                        nexts.push((PlOp::Downgrade(i), Sym::R));
                        nexts.push((PlOp::DowngradeToUp(i), Sym::U));
                    }
                    nexts.push((PlOp::Unlock(i), Sym::N));
                    if o.fair {
                        nexts.push((PlOp::UnlockFair(i), Sym::N));
                    }
                    if o.mustfail {
                        nexts.push((PlOp::TryRead(i), Sym::W));
                        nexts.push((PlOp::TryWrite(i), Sym::W));
                        nexts.push((PlOp::TryUpRead(i), Sym::W));
                    }
                }
                (Kind::Rw, Sym::Maybe) => {
                    nexts.push((PlOp::Unlock(i), Sym::N));
                }
                (Kind::Mx, Sym::N) => {
                    if o.reacquire || !released[i] {
                        nexts.push((PlOp::MLock(i), Sym::W));
                        if o.trys {
                            nexts.push((PlOp::MTry(i), Sym::Maybe));
                        }
                    }
                }
                (Kind::Mx, Sym::W) => {
                    if !cur.iter().any(|c| matches!(c, PlOp::MSet(j, _) if *j == i)) {
                        nexts.push((PlOp::MSet(i, 1), Sym::W));
                    }
                    nexts.push((PlOp::MUnlock(i), Sym::N));
                    if o.fair {
                        nexts.push((PlOp::MUnlockFair(i), Sym::N));
                    }
                    if o.mustfail {
                        nexts.push((PlOp::MTry(i), Sym::W));
                    }
                }
                (Kind::Mx, Sym::Maybe) => {
                    nexts.push((PlOp::MUnlock(i), Sym::N));
                }
                (Kind::Mx, _) => {}
            }
            for (op, s2) in nexts {
                let was_rel = released[i];
                if s2 == Sym::N {
                    released[i] = true;
                }
                cur.push(op);
                st[i] = s2;
                rec(objs, k, o, cur, st, released, out);
                st[i] = s;
                cur.pop();
                released[i] = was_rel;
            }
        }
    }
    let mut out = Vec::new();
    rec(objs, k, o, &mut Vec::new(), &mut vec![Sym::N; objs.len()], &mut vec![false; objs.len()], &mut out);
    out.sort_by_key(|s| s.len());
    out
}

/// values written are made specific to the writing thread
fn personalise(ops: &[PlOp], t: usize) -> Vec<PlOp> {
    ops.iter()
        .map(|o| match o {
            PlOp::Set(i, _) => PlOp::Set(*i, 10 + t as u32),
            PlOp::MSet(i, _) => PlOp::MSet(*i, 10 + t as u32),
            x => x.clone(),
        })
        .collect()
}

/// One program, or two copies of it when it contains both conversions with a recorded finding
/// (see `PlCfg::allow`).
fn mk(objs: &[Kind], main: &[PlOp], children: &[&Vec<PlOp>]) -> Vec<Program<PlFam>> {
    let all = main.iter().chain(children.iter().flat_map(|c| c.iter()));
    let mut sel = 0u8;
    for o in all {
        match o {
            PlOp::DowngradeToUp(_) => sel |= 1,
            PlOp::Upgrade(_) => sel |= 2,
            _ => {}
        }
    }
    let variants: Vec<(u8, u8)> = if sel == 3 { vec![(1, 2), (2, 1)] } else { vec![(sel, 0)] };
    variants
        .into_iter()
        .map(|(sel, allow)| {
            let cfg = PlCfg { objs: objs.to_vec(), sel, allow };
            Program::fork_join(cfg, personalise(main, 0), children.iter().enumerate().map(|(i, c)| personalise(c, i + 1)).collect())
        })
        .collect()
}

fn touches_all(objs: &[Kind], s: &[PlOp]) -> bool {
    (0..objs.len()).all(|i| s.iter().any(|o| o.obj() == i))
}

fn acquires(s: &[PlOp]) -> bool {
    s.iter().any(|o| {
        matches!(
            o,
            PlOp::Read(_) | PlOp::Write(_) | PlOp::UpRead(_) | PlOp::TryRead(_) | PlOp::TryWrite(_) | PlOp::TryUpRead(_) | PlOp::MLock(_) | PlOp::MTry(_)
        )
    })
}

pub fn program_set(set: &str) -> Vec<Program<PlFam>> {
    let thorough = set == "thorough";
    let rw = [Kind::Rw];
    let mx = [Kind::Mx];
    let rwmx = [Kind::Rw, Kind::Mx];
    let rwrw = [Kind::Rw, Kind::Rw];
    let basic = GenOpt {
        fair: false,
        mustfail: false,
        reacquire: false,
        trys: true,
        transitions: true,
    };
    let full = GenOpt {
        fair: true,
        mustfail: true,
        reacquire: true,
        trys: true,
        transitions: true,
    };
    let mut out: Vec<Program<PlFam>> = Vec::new();

    // A1: one RwLock, two children, every pair of bodies
    {
        let k = if thorough { 4 } else { 3 };
        let seqs = thread_seqs(&rw, k, basic);
        for idx in nondecreasing_tuples(seqs.len(), 2) {
            let (a, b) = (&seqs[idx[0]], &seqs[idx[1]]);
            if !thorough && a.len() + b.len() > 5 {
                continue;
            }
            if thorough && a.len() + b.len() > 6 {
                continue;
            }
            out.extend(mk(&rw, &[], &[a, b]));
        }
    }
    // A2: three parties on one RwLock (main takes part): queue order, upgrade/downgrade against two others
    {
        let s2 = thread_seqs(&rw, 2, basic);
        let mut mains: Vec<Vec<PlOp>> = vec![
            vec![PlOp::Write(0), PlOp::Unlock(0)],
            vec![PlOp::UpRead(0), PlOp::Upgrade(0), PlOp::Unlock(0)],
            vec![PlOp::Write(0), PlOp::DowngradeToUp(0), PlOp::Unlock(0)],
        ];
        if thorough {
            mains.push(vec![PlOp::Read(0), PlOp::Unlock(0)]);
            mains.push(vec![PlOp::UpRead(0), PlOp::Unlock(0)]);
            mains.push(vec![PlOp::Write(0), PlOp::Downgrade(0), PlOp::Unlock(0)]);
            mains.push(vec![PlOp::UpRead(0), PlOp::DowngradeUp(0), PlOp::Unlock(0)]);
        }
        let small: Vec<&Vec<PlOp>> = s2
            .iter()
            .filter(|s| if thorough { s.len() == 1 || matches!(s[1], PlOp::Unlock(_)) } else { s.len() == 1 && matches!(s[0], PlOp::Read(_) | PlOp::Write(_) | PlOp::UpRead(_)) })
            .collect();
        for m in &mains {
            for idx in nondecreasing_tuples(small.len(), 2) {
                let (a, b) = (small[idx[0]], small[idx[1]]);
                if thorough && a.len() + b.len() > if m.len() == 3 { 2 } else { 3 } {
                    continue;
                }
                // quick: the long mains only against a writer and one other party
                if !thorough && m.len() == 3 && !(matches!(a[0], PlOp::Write(_)) != matches!(b[0], PlOp::Write(_))) {
                    continue;
                }
                out.extend(mk(&rw, m, &[a, b]));
            }
        }
    }
    // A3: the mutex (fair unlocks, re-entrant try)
    {
        let seqs = thread_seqs(&mx, if thorough { 4 } else { 3 }, full);
        for idx in nondecreasing_tuples(seqs.len(), 2) {
            out.extend(mk(&mx, &[], &[&seqs[idx[0]], &seqs[idx[1]]]));
        }
        let s2 = thread_seqs(&mx, 2, full);
        for idx in nondecreasing_tuples(s2.len(), 3) {
            if idx.iter().map(|i| s2[*i].len()).sum::<usize>() > if thorough { 5 } else { 4 } {
                continue;
            }
            out.extend(mk(&mx, &[], &[&s2[idx[0]], &s2[idx[1]], &s2[idx[2]]]));
        }
    }
    // A4: two locks (lock order cycles, independence)
    for objs in [&rwmx[..], &rwrw[..]] {
        for transitions in [false, true] {
            if transitions && !thorough {
                continue;
            }
            let o = GenOpt {
                fair: false,
                mustfail: false,
                reacquire: false,
                trys: false,
                transitions,
            };
            let is_tr = |x: &PlOp| matches!(x, PlOp::Upgrade(_) | PlOp::TryUpgrade(_) | PlOp::Downgrade(_) | PlOp::DowngradeUp(_) | PlOp::DowngradeToUp(_));
            let seqs: Vec<Vec<PlOp>> = thread_seqs(objs, 3, o)
                .into_iter()
                .filter(|s| touches_all(objs, s) && !s.iter().any(|x| matches!(x, PlOp::Set(..) | PlOp::MSet(..))) && (!transitions || s.iter().any(is_tr)))
                .collect();
            let plain: Vec<Vec<PlOp>> = if transitions { thread_seqs(objs, 2, GenOpt { transitions: false, ..o }).into_iter().filter(|s| touches_all(objs, s)).collect() } else { Vec::new() };
            if transitions {
                // a body with a conversion against every two-operation body
                for a in &seqs {
                    for b in &plain {
                        out.extend(mk(objs, &[], &[a, b]));
                    }
                }
            } else {
                for idx in nondecreasing_tuples(seqs.len(), 2) {
                    let (a, b) = (&seqs[idx[0]], &seqs[idx[1]]);
                    if a.len() + b.len() > if thorough { 5 } else { 4 } {
                        continue;
                    }
                    // two locks of the same kind: programs that differ only by renaming the locks
                    // are the same program — keep the one whose first body starts on lock 0
                    if objs[0] == objs[1] && a[0].obj() != 0 {
                        continue;
                    }
                    out.extend(mk(objs, &[], &[a, b]));
                }
            }
        }
    }
    // A5: fair unlocks and re-entrant tries that must fail, against every short body
    {
        let special: Vec<Vec<PlOp>> = thread_seqs(&rw, 3, full)
            .into_iter()
            .filter(|s| {
                let fair = s.iter().any(|o| matches!(o, PlOp::UnlockFair(_)));
                let mustfail = s.windows(2).any(|w| matches!(w[1], PlOp::TryRead(_) | PlOp::TryWrite(_) | PlOp::TryUpRead(_)) && !matches!(w[0], PlOp::Unlock(_) | PlOp::UnlockFair(_)));
                let reacq = s.iter().filter(|o| acquires(std::slice::from_ref(o))).count() > 1;
                (fair || mustfail) && (thorough || !reacq)
            })
            .collect();
        let others = thread_seqs(&rw, 2, basic);
        for a in &special {
            for b in &others {
                if !thorough && !(b.len() == 1 || matches!(b[1], PlOp::Unlock(_))) {
                    continue;
                }
                out.extend(mk(&rw, &[], &[a, b]));
            }
        }
    }
    if thorough {
        // three children with two operations each on one RwLock
        let s2 = thread_seqs(&rw, 2, basic);
        for idx in nondecreasing_tuples(s2.len(), 3) {
            if idx.iter().map(|i| s2[*i].len()).sum::<usize>() > 4 {
                continue;
            }
            out.extend(mk(&rw, &[], &[&s2[idx[0]], &s2[idx[1]], &s2[idx[2]]]));
        }
    }
    out.sort_by_key(|p| p.size());
    out
}
