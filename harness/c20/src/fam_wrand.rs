//! Family `wrand` (C20 part D i): bodies that draw through the rand-0.8 replacement
//! (`shuttle-rand_0_8-inner`): `StdRng`, `SmallRng`, `thread_rng()`, `random()`, clones of the RNGs,
//! `fill_bytes`, `gen_range`, interleaved with an atomic, a mutex and a yield.
//!
//! Two oracles are applied to the same programs:
//!  * model check under the explorer's constant data menu (every `Scheduler::next_u64` answers 0):
//!    every drawn value must be the image of 0 — a generator that kept entropy of its own (a real
//!    StdRng seeded from the seed the body passes, OS entropy, a real thread-local generator) would
//!    return something else;
//!  * `Mode::replay_check` (the C01 oracle): data from the seeded stream a built-in scheduler would
//!    use; every execution is replayed from its recorded schedule string and must reproduce every
//!    scheduler call, every drawn value and the ending; then the tree is explored again under
//!    `UncontrolledNondeterminismCheckScheduler`.

use shuttle::sync::atomic::{AtomicUsize, Ordering};
use shuttle::sync::{Mutex, MutexGuard};
use shuttle_rand_0_8_inner as wr;
use vx::prog::*;
use wr::rngs::{SmallRng, StdRng};
use wr::{Rng, RngCore, SeedableRng};

#[derive(Clone, Debug, PartialEq, Eq, Hash)]
pub enum WOp {
    /// this thread's StdRng (created on first use with `seed_from_u64(42 + t)`): next_u64() % 5
    StdNext,
    /// gen_range(0..n) on this thread's StdRng
    StdRange(usize),
    /// a clone of this thread's StdRng: next_u32() % 5
    StdCloneNext,
    /// this thread's SmallRng (`from_seed([7; 32])`): gen_range(0..n)
    SmallRange(usize),
    SmallNext,
    /// a fresh `StdRng::from_entropy()`: gen::<u8>() % 4
    EntropyNext,
    /// wrapper's thread_rng().gen_range(0..n)
    ThreadRange(usize),
    /// wrapper's random::<u8>() % 4
    Random,
    /// a lazy static (lazy_static replacement) whose initialiser draws gen_range(0..4) through the
    /// rand replacement: (value, did the initialiser run in this call)
    LazyDraw,
    /// fill 3 bytes from this thread's StdRng; sum % 7
    Fill,
    /// draw 1..4 from thread_rng, store into the shared atomic
    DrawStore,
    Load,
    Lock,
    Unlock,
    Yield,
}

#[derive(Clone, Debug, PartialEq, Eq, Hash, PartialOrd, Ord)]
pub enum WRes {
    Unit,
    Val(usize),
}

thread_local! {
    /// task that ran the initialiser of LAZY_DRAW most recently (all Shuttle tasks share the OS thread)
    static LAZY_RAN_BY: std::cell::Cell<usize> = const { std::cell::Cell::new(usize::MAX) };
}

shuttle_lazy_static_impl::lazy_static! {
    static ref LAZY_DRAW: usize = {
        LAZY_RAN_BY.with(|c| c.set(usize::from(shuttle::current::me())));
        wr::thread_rng().gen_range(0..4usize)
    };
}

pub struct WObjs {
    a: AtomicUsize,
    m: Mutex<usize>,
}

pub struct WLocals {
    g: Option<MutexGuard<'static, usize>>,
    std: Option<StdRng>,
    small: Option<SmallRng>,
    t: usize,
    lazy_counted: bool,
}

#[derive(Clone, Debug, PartialEq, Eq, Hash)]
pub struct WM {
    a: usize,
    holder: Option<usize>,
    /// the lazy static has been initialised in this execution
    lazy: bool,
    /// holder of the mutex inside the lazy static's `Once` (contended only until it is initialised)
    once: Option<usize>,
}

pub struct WRandFam;

impl WLocals {
    fn std(&mut self) -> &mut StdRng {
        let t = self.t;
        self.std.get_or_insert_with(|| StdRng::seed_from_u64(42 + t as u64))
    }
    fn small(&mut self) -> &mut SmallRng {
        self.small.get_or_insert_with(|| SmallRng::from_seed([7; 32]))
    }
}

impl Family for WRandFam {
    type Op = WOp;
    type Res = WRes;
    type Cfg = ();
    type Objs = WObjs;
    type Locals = WLocals;
    type M = WM;
    const NAME: &'static str = "wrand";

    fn make_objs(_c: &(), _n: usize) -> WObjs {
        WObjs {
            a: AtomicUsize::new(0),
            m: Mutex::new(0),
        }
    }
    fn new_locals(_c: &(), t: usize) -> WLocals {
        WLocals {
            g: None,
            std: None,
            small: None,
            t,
            lazy_counted: false,
        }
    }
    fn end_thread(_o: &WObjs, l: WLocals, _t: usize) {
        std::mem::forget(l.g);
    }
    fn yields(op: &WOp) -> Option<bool> {
        Some(matches!(op, WOp::Yield))
    }
    fn exec(o: &WObjs, l: &mut WLocals, _t: usize, op: &WOp) -> WRes {
        match op {
            WOp::StdNext => WRes::Val((l.std().next_u64() % 5) as usize),
            WOp::StdRange(n) => WRes::Val(l.std().gen_range(0..*n)),
            WOp::StdCloneNext => {
                let mut c = l.std().clone();
                WRes::Val((c.next_u32() % 5) as usize)
            }
            WOp::SmallRange(n) => WRes::Val(l.small().gen_range(0..*n)),
            WOp::SmallNext => WRes::Val((l.small().next_u64() % 5) as usize),
            WOp::EntropyNext => {
                let mut r = StdRng::from_entropy();
                WRes::Val((r.r#gen::<u8>() % 4) as usize)
            }
            WOp::ThreadRange(n) => WRes::Val(wr::thread_rng().gen_range(0..*n)),
            WOp::Random => WRes::Val((wr::random::<u8>() % 4) as usize),
            WOp::LazyDraw => {
                let v = *LAZY_DRAW;
                // every access of an execution is preceded by an initialisation in that execution
                let ran = !l.lazy_counted && LAZY_RAN_BY.with(|c| c.get()) == usize::from(shuttle::current::me());
                l.lazy_counted |= ran;
                WRes::Val(v * 2 + ran as usize)
            }
            WOp::Fill => {
                let mut b = [0u8; 3];
                l.std().fill_bytes(&mut b);
                WRes::Val(b.iter().map(|x| *x as usize).sum::<usize>() % 7)
            }
            WOp::DrawStore => {
                let v = wr::thread_rng().gen_range(1..4usize);
                o.a.store(v, Ordering::SeqCst);
                WRes::Val(v)
            }
            WOp::Load => WRes::Val(o.a.load(Ordering::SeqCst)),
            WOp::Lock => {
                let g = unsafe { std::mem::transmute::<&Mutex<usize>, &'static Mutex<usize>>(&o.m) }.lock().unwrap();
                l.g = Some(g);
                WRes::Unit
            }
            WOp::Unlock => {
                drop(l.g.take().expect("unlock without guard"));
                WRes::Unit
            }
            WOp::Yield => {
                shuttle::thread::yield_now();
                WRes::Unit
            }
        }
    }
    fn objects_of(op: &WOp) -> Vec<u32> {
        match op {
            WOp::DrawStore | WOp::Load => vec![0x300],
            WOp::Lock | WOp::Unlock => vec![0x100],
            _ => vec![],
        }
    }
    fn m_init(_c: &(), _n: usize) -> WM {
        WM { a: 0, holder: None, lazy: false, once: None }
    }
    /// Model under the constant data menu {0}: every draw is the image of 0.
    fn m_step(m: &WM, t: usize, op: &WOp, phase: u8, _strict: bool) -> Vec<MStep<WM, WRes>> {
        let mut n = m.clone();
        match op {
            WOp::StdNext | WOp::StdRange(_) | WOp::StdCloneNext | WOp::SmallRange(_) | WOp::SmallNext | WOp::EntropyNext | WOp::ThreadRange(_) | WOp::Random | WOp::Fill => {
                vec![MStep::Done(n, WRes::Val(0))]
            }
            WOp::LazyDraw => match phase {
                // already initialised: plain read.  Otherwise the accesses race on the Once's mutex;
                // the winner runs the initialiser (value: image of 0), the others find it done.
                0 => {
                    if n.lazy {
                        vec![MStep::Done(n, WRes::Val(0))]
                    } else {
                        vec![MStep::Cont(n, 1)]
                    }
                }
                1 => {
                    if n.once.is_some() {
                        vec![]
                    } else {
                        n.once = Some(t);
                        if n.lazy {
                            vec![MStep::Cont(n, 2)]
                        } else {
                            n.lazy = true;
                            vec![MStep::Cont(n, 3)]
                        }
                    }
                }
                ph => {
                    n.once = None;
                    vec![MStep::Done(n, WRes::Val((ph == 3) as usize))]
                }
            },
            WOp::DrawStore => {
                // the draw (1 + image of 0) happens before the store's scheduling point
                if phase == 0 {
                    vec![MStep::Cont(n, 1)]
                } else {
                    n.a = 1;
                    vec![MStep::Done(n, WRes::Val(1))]
                }
            }
            WOp::Load => {
                let v = n.a;
                vec![MStep::Done(n, WRes::Val(v))]
            }
            WOp::Lock => {
                if n.holder.is_none() {
                    n.holder = Some(t);
                    vec![MStep::Done(n, WRes::Unit)]
                } else {
                    vec![]
                }
            }
            WOp::Unlock => {
                n.holder = None;
                vec![MStep::Done(n, WRes::Unit)]
            }
            WOp::Yield => vec![MStep::Done(n, WRes::Unit)],
        }
    }
}

pub fn program_set(set: &str) -> Vec<Program<WRandFam>> {
    use WOp::*;
    let thorough = set == "thorough";
    let bodies: Vec<Vec<WOp>> = vec![
        vec![StdNext],
        vec![StdRange(3), StdCloneNext],
        vec![SmallRange(3)],
        vec![SmallNext, Random],
        vec![EntropyNext],
        vec![ThreadRange(3)],
        vec![Fill, Load],
        vec![DrawStore],
        vec![Load, StdRange(2)],
        vec![Lock, SmallRange(2), Unlock],
        vec![Yield, DrawStore],
        vec![DrawStore, Load],
        vec![Lock, Random, DrawStore],
        vec![LazyDraw],
        vec![LazyDraw, Load],
    ];
    let mut out = Vec::new();
    for idx in nondecreasing_tuples(bodies.len(), 2) {
        let mains: Vec<Vec<WOp>> = if thorough { vec![vec![], vec![StdRange(2)], vec![Load], vec![Random, Load]] } else { vec![vec![StdRange(2), Load]] };
        for ms in mains {
            out.push(Program::fork_join((), ms, idx.iter().map(|&i| bodies[i].clone()).collect()));
        }
    }
    for (i, b) in bodies.iter().enumerate() {
        if !thorough && i % 4 != 0 {
            continue;
        }
        out.push(Program::fork_join((), vec![StdNext], vec![b.clone(), vec![Load], vec![DrawStore]]));
    }
    out.sort_by_key(|p| p.size());
    out
}
