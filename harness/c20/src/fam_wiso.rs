//! Family `wiso` (C20 part D ii): bodies using the lazy_static replacement
//! (`shuttle-lazy_static-impl`) — statics whose initialiser depends on another lazy static, owns a drop-counted value or
//! a Shuttle mutex (draws through the rand replacement inside an initialiser are part of `wrand`: the
//! pair driver of the C14 oracle has no data alternatives) — run under the C14 oracle
//! (`Mode::iso_check`): execution B after any predecessor A (complete, or cut by the scheduler at
//! any depth) in one `Runner::run` must behave exactly like B alone: the initialiser runs again in
//! every execution, the value of the previous execution is dropped before the next one starts.

use shuttle::sync::{Mutex, MutexGuard};
use std::cell::Cell;
use vx::prog::*;

#[derive(Clone, Debug, PartialEq, Eq, Hash)]
pub enum ZOp {
    /// first static: (did its initialiser run during this call, value, serial number of the initialisation)
    LazyA,
    /// second static, initialised from the first one
    LazyB,
    /// a static holding a Shuttle mutex: lock it, bump, unlock; returns the previous content
    LazyCounter,
    MakeGuard,
    Lock,
    Unlock,
    Yield,
    /// my task id
    Me,
}

#[derive(Clone, Debug, PartialEq, Eq, Hash, PartialOrd, Ord)]
pub enum ZRes {
    Unit,
    Num(u32),
    Lazy(bool, u32, u32),
}

thread_local! {
    /// drop ledger (plain std thread-local: all Shuttle tasks share the OS thread)
    pub static LIVE: Cell<i64> = const { Cell::new(0) };
    static INIT_RAN: Cell<u32> = const { Cell::new(0) };
    /// number of initialisations of static A since the last reset of the ledger
    static SERIAL: Cell<u32> = const { Cell::new(0) };
}

pub struct Guard;
impl Guard {
    fn new() -> Guard {
        LIVE.with(|l| l.set(l.get() + 1));
        Guard
    }
}
impl Drop for Guard {
    fn drop(&mut self) {
        LIVE.with(|l| l.set(l.get() - 1));
    }
}

pub struct LazyVal {
    v: u32,
    _g: Guard,
}
unsafe impl Sync for LazyVal {}

shuttle_lazy_static_impl::lazy_static! {
    static ref LA: LazyVal = {
        INIT_RAN.with(|c| c.set(c.get() | 1));
        LazyVal { v: 7, _g: Guard::new() }
    };
    static ref LB: LazyVal = {
        INIT_RAN.with(|c| c.set(c.get() | 2));
        LazyVal { v: LA.v * 10 + 3, _g: Guard::new() }
    };
    static ref LC: Mutex<u32> = {
        INIT_RAN.with(|c| c.set(c.get() | 4));
        Mutex::new(0)
    };
}

pub struct ZObjs {
    m: Mutex<u32>,
}
pub struct ZLocals {
    g: Option<MutexGuard<'static, u32>>,
    guards: Vec<Guard>,
}

pub struct WIsoFam;

impl Family for WIsoFam {
    type Op = ZOp;
    type Res = ZRes;
    type Cfg = ();
    type Objs = ZObjs;
    type Locals = ZLocals;
    type M = ();
    const NAME: &'static str = "wiso";

    fn make_objs(_c: &(), _n: usize) -> ZObjs {
        ZObjs { m: Mutex::new(0) }
    }
    fn new_locals(_c: &(), _t: usize) -> ZLocals {
        ZLocals { g: None, guards: vec![] }
    }
    fn on_start(_o: &ZObjs, t: usize) {
        if t == 0 {
            // every value created by earlier executions must be gone before this one starts
            log_aux(format!("live-at-start {}", LIVE.with(|l| l.get())));
        }
    }
    fn reset_globals() {
        LIVE.with(|l| l.set(0));
        SERIAL.with(|l| l.set(0));
    }
    fn yields(op: &ZOp) -> Option<bool> {
        Some(matches!(op, ZOp::Yield))
    }
    fn exec(o: &ZObjs, l: &mut ZLocals, _t: usize, op: &ZOp) -> ZRes {
        match op {
            ZOp::LazyA => {
                INIT_RAN.with(|c| c.set(0));
                let v = LA.v;
                let ran = INIT_RAN.with(|c| c.get()) & 1 != 0;
                ZRes::Lazy(ran, v, 0)
            }
            ZOp::LazyB => {
                INIT_RAN.with(|c| c.set(0));
                let v = LB.v;
                let ran = INIT_RAN.with(|c| c.get());
                ZRes::Lazy(ran & 2 != 0, v, ran)
            }
            ZOp::LazyCounter => {
                INIT_RAN.with(|c| c.set(0));
                let mut g = LC.lock().unwrap();
                let old = *g;
                *g += 1;
                drop(g);
                let ran = INIT_RAN.with(|c| c.get()) & 4 != 0;
                ZRes::Lazy(ran, old, 0)
            }
            ZOp::MakeGuard => {
                l.guards.push(Guard::new());
                ZRes::Unit
            }
            ZOp::Lock => {
                let g = unsafe { std::mem::transmute::<&Mutex<u32>, &'static Mutex<u32>>(&o.m) }.lock().unwrap();
                l.g = Some(g);
                ZRes::Unit
            }
            ZOp::Unlock => {
                drop(l.g.take());
                ZRes::Unit
            }
            ZOp::Yield => {
                shuttle::thread::yield_now();
                ZRes::Unit
            }
            ZOp::Me => ZRes::Num(usize::from(shuttle::current::me()) as u32),
        }
    }
    // no reference model: the oracle is differential (B after A  vs  B alone)
    fn m_init(_c: &(), _n: usize) {}
    fn m_step(_m: &(), _t: usize, _op: &ZOp, _ph: u8, _s: bool) -> Vec<MStep<(), ZRes>> {
        vec![]
    }
}

pub fn program_set(_set: &str) -> Vec<Program<WIsoFam>> {
    use ZOp::*;
    let bodies: Vec<(Vec<ZOp>, Vec<Vec<ZOp>>)> = vec![
        (vec![LazyA, LazyA], vec![vec![LazyA, MakeGuard]]),
        (vec![LazyB, LazyA], vec![vec![LazyA, LazyB]]),
        (vec![LazyCounter, Me], vec![vec![LazyCounter, LazyCounter]]),
        (vec![Lock, LazyB, Unlock], vec![vec![Lock, LazyA, Unlock, Me]]),
        (vec![MakeGuard, LazyCounter], vec![vec![LazyB], vec![Yield, LazyCounter]]),
        (vec![Me, LazyA], vec![vec![Lock, MakeGuard, LazyCounter, Unlock]]),
    ];
    bodies.into_iter().map(|(m, ch)| Program::fork_join((), m, ch)).collect()
}
