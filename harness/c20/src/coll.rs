//! C20 part C — deterministic collections: exhaustive enumeration of operation histories.
//!
//! Not scheduling-related.  For both `deterministic_collections::HashMap<u8,u8>` and `HashSet<u8>`:
//! ALL histories of length ≤ L over the alphabet below on 3 keys (chosen so that the iteration order
//! of the 3-key table depends on the insertion order, i.e. the keys collide in the table).  Every
//! history is executed twice in this process and once more in a separate child process (which
//! enumerates the same histories by itself and streams one line per history).  Oracles:
//!   1. same history => same iteration order, in both in-process instances and in the child process;
//!   2. contents and every return value equal those of `std::collections` under the same history;
//!   3. deterministic cause check: after every operation the collection's `BuildHasher` must still
//!      be the fixed one (probe: `hasher().hash_one(c)` equals the probe of a collection made by
//!      `new()`).  A collection carrying a fresh `RandomState` iterates in an order that is not a
//!      function of its history, whether or not two 3-key instances happen to agree in one run;
//!      the finding is keyed by the operation kind that produced such a collection, so the verdict
//!      does not depend on the OS randomness.  Observed order differences are recorded as witnesses.

use deterministic_collections::{HashMap as DMap, HashSet as DSet};
use serde_json::json;
use std::collections::{BTreeMap, BTreeSet};
use std::hash::{BuildHasher, RandomState};
use std::io::{BufRead, BufReader, Write};

#[derive(Clone, Copy, Debug, PartialEq, Eq, Hash, PartialOrd, Ord)]
pub enum COp {
    Ins(u8),
    Rem(u8),
    Clear,
    /// extend with a fixed list (0: [k0,k1], 1: [k2,k0])
    Ext(u8),
    /// replace by from_iter of a fixed list (0: [k0,k1,k2], 1: [k2,k1,k0])
    FromIter(u8),
    /// replace by `From<[_; 2]>` of [k1, k0]
    FromArr,
    CloneOp,
    /// replace by `From<std collection>` (std collection with a pinned, non-default hasher state, same contents)
    FromStd,
    /// convert into the std type and back (`From` both ways)
    ViaStd,
    /// retain (0: key != k0, 1: key == k1)
    Retain(u8),
    /// serde_json round trip
    Serde,
    /// replace by empty `with_capacity(8)`
    NewCap,
    // sets only: cur = &cur OP &other (other 0: {k0,k1}, 1: {k1,k2})
    Union(u8),
    Inter(u8),
    Diff(u8),
    Sym(u8),
}

impl COp {
    /// name of the API the operation exercises (finding keys)
    fn api(&self, set: bool) -> String {
        let ty = if set { "HashSet" } else { "HashMap" };
        let m = match self {
            COp::Ins(_) => "insert",
            COp::Rem(_) => "remove",
            COp::Clear => "clear",
            COp::Ext(_) => "extend",
            COp::FromIter(_) => "from_iter",
            COp::FromArr => "from_array",
            COp::CloneOp => "clone",
            COp::FromStd => "from_std",
            COp::ViaStd => "into_std_and_back",
            COp::Retain(_) => "retain",
            COp::Serde => "deserialize",
            COp::NewCap => "with_capacity",
            COp::Union(_) => "bitor",
            COp::Inter(_) => "bitand",
            COp::Diff(_) => "sub",
            COp::Sym(_) => "bitxor",
        };
        format!("{}::{}", ty, m)
    }
}

pub fn alphabet(set: bool) -> Vec<COp> {
    let mut v = vec![
        COp::Ins(0),
        COp::Ins(1),
        COp::Ins(2),
        COp::Rem(0),
        COp::Rem(1),
        COp::Rem(2),
        COp::Clear,
        COp::Ext(0),
        COp::Ext(1),
        COp::FromIter(0),
        COp::FromIter(1),
        COp::FromArr,
        COp::CloneOp,
        COp::FromStd,
        COp::ViaStd,
        COp::Retain(0),
        COp::Retain(1),
        COp::Serde,
        COp::NewCap,
    ];
    if set {
        for w in 0..2 {
            v.push(COp::Union(w));
            v.push(COp::Inter(w));
            v.push(COp::Diff(w));
            v.push(COp::Sym(w));
        }
    }
    v
}

const PROBE: u64 = 0xC20C_20C2_0C20;

fn pinned_state() -> RandomState {
    // same technique the crate itself uses for its fixed state
    unsafe { std::mem::transmute::<(u64, u64), RandomState>((0x1111_2222_3333_4444, 0x5555_6666_7777_8888)) }
}
fn pinned_state2() -> RandomState {
    unsafe { std::mem::transmute::<(u64, u64), RandomState>((0x9999_aaaa_bbbb_cccc, 0x0123_4567_89ab_cdef)) }
}

fn ref_probe() -> u64 {
    DSet::<u8>::new().hasher().hash_one(PROBE)
}

/// The three keys: the first triple a<b<c (a,b,c < 64) whose 3-key table iterates differently when
/// built in the opposite insertion order (so that iteration order is sensitive to the history).
pub fn choose_keys() -> ([u8; 3], bool) {
    for a in 0u8..64 {
        for b in a + 1..64 {
            for c in b + 1..64 {
                let x: Vec<u8> = DSet::from_iter([a, b, c]).iter().cloned().collect();
                let y: Vec<u8> = DSet::from_iter([c, b, a]).iter().cloned().collect();
                let xm: Vec<u8> = DMap::from_iter([(a, 0u8), (b, 0), (c, 0)]).keys().cloned().collect();
                let ym: Vec<u8> = DMap::from_iter([(c, 0u8), (b, 0), (a, 0)]).keys().cloned().collect();
                if x != y && xm != ym {
                    return ([a, b, c], true);
                }
            }
        }
    }
    ([1, 2, 3], false)
}

/// What one build of one history shows.
#[derive(Clone, Debug, PartialEq, Eq, Default)]
pub struct Obs {
    /// keys in iteration order at the end
    pub order: Vec<u8>,
    /// index of the first operation after which the hasher was not the fixed one
    pub taint: Option<usize>,
    /// first disagreement with std (operation index, description)
    pub std_diff: Option<(usize, String)>,
}

fn lists(keys: &[u8; 3]) -> ([Vec<u8>; 2], [Vec<u8>; 2], [Vec<u8>; 2]) {
    let ext = [vec![keys[0], keys[1]], vec![keys[2], keys[0]]];
    let fi = [vec![keys[0], keys[1], keys[2]], vec![keys[2], keys[1], keys[0]]];
    let other = [vec![keys[0], keys[1]], vec![keys[1], keys[2]]];
    (ext, fi, other)
}

pub fn run_set(hist: &[COp], keys: &[u8; 3], refp: u64) -> Obs {
    let (ext, fi, other) = lists(keys);
    let mut cur: DSet<u8> = DSet::new();
    let mut model: BTreeSet<u8> = BTreeSet::new();
    let mut obs = Obs::default();
    for (i, op) in hist.iter().enumerate() {
        let mut diff: Option<String> = None;
        match op {
            COp::Ins(k) => {
                let k = keys[*k as usize];
                let (a, b) = (cur.insert(k), model.insert(k));
                if a != b {
                    diff = Some(format!("insert({}) returned {} (std: {})", k, a, b));
                }
            }
            COp::Rem(k) => {
                let k = keys[*k as usize];
                let (a, b) = (cur.remove(&k), model.remove(&k));
                if a != b {
                    diff = Some(format!("remove({}) returned {} (std: {})", k, a, b));
                }
            }
            COp::Clear => {
                cur.clear();
                model.clear();
            }
            COp::Ext(w) => {
                cur.extend(ext[*w as usize].iter().cloned());
                model.extend(ext[*w as usize].iter().cloned());
            }
            COp::FromIter(w) => {
                cur = DSet::from_iter(fi[*w as usize].iter().cloned());
                model = fi[*w as usize].iter().cloned().collect();
            }
            COp::FromArr => {
                cur = DSet::from([keys[1], keys[0]]);
                model = BTreeSet::from([keys[1], keys[0]]);
            }
            COp::CloneOp => {
                cur = cur.clone();
            }
            COp::FromStd => {
                let mut s: std::collections::HashSet<u8, RandomState> = std::collections::HashSet::with_hasher(pinned_state());
                for k in cur.iter() {
                    s.insert(*k);
                }
                cur = DSet::from(s);
            }
            COp::ViaStd => {
                let s: std::collections::HashSet<u8, RandomState> = cur.into();
                cur = DSet::from(s);
            }
            COp::Retain(w) => {
                let k0 = keys[0];
                let k1 = keys[1];
                if *w == 0 {
                    cur.retain(|k| *k != k0);
                    model.retain(|k| *k != k0);
                } else {
                    cur.retain(|k| *k == k1);
                    model.retain(|k| *k == k1);
                }
            }
            COp::Serde => {
                let s = serde_json::to_string(&cur).expect("serialize set");
                cur = serde_json::from_str(&s).expect("deserialize set");
            }
            COp::NewCap => {
                cur = DSet::with_capacity(8);
                model.clear();
            }
            COp::Union(w) | COp::Inter(w) | COp::Diff(w) | COp::Sym(w) => {
                let o: DSet<u8> = DSet::from_iter(other[*w as usize].iter().cloned());
                let om: BTreeSet<u8> = other[*w as usize].iter().cloned().collect();
                match op {
                    COp::Union(_) => {
                        cur = &cur | &o;
                        model = &model | &om;
                    }
                    COp::Inter(_) => {
                        cur = &cur & &o;
                        model = &model & &om;
                    }
                    COp::Diff(_) => {
                        cur = &cur - &o;
                        model = &model - &om;
                    }
                    _ => {
                        cur = &cur ^ &o;
                        model = &model ^ &om;
                    }
                }
            }
        }
        if diff.is_none() {
            let mut c: Vec<u8> = cur.iter().cloned().collect();
            c.sort();
            let m: Vec<u8> = model.iter().cloned().collect();
            if c != m || cur.len() != model.len() || keys.iter().any(|k| cur.contains(k) != model.contains(k)) {
                diff = Some(format!("contents {:?} (std: {:?})", c, m));
            }
        }
        if let (Some(d), None) = (diff, &obs.std_diff) {
            obs.std_diff = Some((i, d));
        }
        if obs.taint.is_none() && cur.hasher().hash_one(PROBE) != refp {
            obs.taint = Some(i);
        }
    }
    obs.order = cur.iter().cloned().collect();
    obs
}

pub fn run_map(hist: &[COp], keys: &[u8; 3], refp: u64) -> Obs {
    let (ext, fi, _other) = lists(keys);
    let mut cur: DMap<u8, u8> = DMap::new();
    let mut model: BTreeMap<u8, u8> = BTreeMap::new();
    let mut obs = Obs::default();
    for (i, op) in hist.iter().enumerate() {
        let val = 10 + i as u8;
        let mut diff: Option<String> = None;
        match op {
            COp::Ins(k) => {
                let k = keys[*k as usize];
                let (a, b) = (cur.insert(k, val), model.insert(k, val));
                if a != b {
                    diff = Some(format!("insert({},{}) returned {:?} (std: {:?})", k, val, a, b));
                }
            }
            COp::Rem(k) => {
                let k = keys[*k as usize];
                let (a, b) = (cur.remove(&k), model.remove(&k));
                if a != b {
                    diff = Some(format!("remove({}) returned {:?} (std: {:?})", k, a, b));
                }
            }
            COp::Clear => {
                cur.clear();
                model.clear();
            }
            COp::Ext(w) => {
                cur.extend(ext[*w as usize].iter().map(|k| (*k, val)));
                model.extend(ext[*w as usize].iter().map(|k| (*k, val)));
            }
            COp::FromIter(w) => {
                cur = DMap::from_iter(fi[*w as usize].iter().map(|k| (*k, val)));
                model = fi[*w as usize].iter().map(|k| (*k, val)).collect();
            }
            COp::FromArr => {
                cur = DMap::from([(keys[1], val), (keys[0], val)]);
                model = BTreeMap::from([(keys[1], val), (keys[0], val)]);
            }
            COp::CloneOp => {
                cur = cur.clone();
            }
            COp::FromStd => {
                let mut s: std::collections::HashMap<u8, u8, RandomState> = std::collections::HashMap::with_hasher(pinned_state());
                for (k, v) in cur.iter() {
                    s.insert(*k, *v);
                }
                cur = DMap::from(s);
            }
            COp::ViaStd => {
                let s: std::collections::HashMap<u8, u8, RandomState> = cur.into();
                cur = DMap::from(s);
            }
            COp::Retain(w) => {
                let k0 = keys[0];
                let k1 = keys[1];
                if *w == 0 {
                    cur.retain(|k, _| *k != k0);
                    model.retain(|k, _| *k != k0);
                } else {
                    cur.retain(|k, _| *k == k1);
                    model.retain(|k, _| *k == k1);
                }
            }
            COp::Serde => {
                let s = serde_json::to_string(&cur).expect("serialize map");
                cur = serde_json::from_str(&s).expect("deserialize map");
            }
            COp::NewCap => {
                cur = DMap::with_capacity(8);
                model.clear();
            }
            COp::Union(_) | COp::Inter(_) | COp::Diff(_) | COp::Sym(_) => unreachable!("set operator in a map history"),
        }
        if diff.is_none() {
            let mut c: Vec<(u8, u8)> = cur.iter().map(|(k, v)| (*k, *v)).collect();
            c.sort();
            let m: Vec<(u8, u8)> = model.iter().map(|(k, v)| (*k, *v)).collect();
            if c != m || cur.len() != model.len() || keys.iter().any(|k| cur.get(k) != model.get(k)) {
                diff = Some(format!("contents {:?} (std: {:?})", c, m));
            }
        }
        if let (Some(d), None) = (diff, &obs.std_diff) {
            obs.std_diff = Some((i, d));
        }
        if obs.taint.is_none() && cur.hasher().hash_one(PROBE) != refp {
            obs.taint = Some(i);
        }
    }
    obs.order = cur.keys().cloned().collect();
    // the other iterators walk the same table
    let o2: Vec<u8> = cur.iter().map(|(k, _)| *k).collect();
    let o3: Vec<u8> = cur.clone().into_iter().map(|(k, _)| k).collect();
    if (o2 != obs.order || o3 != obs.order) && obs.std_diff.is_none() {
        obs.std_diff = Some((hist.len(), format!("keys() {:?}, iter() {:?}, clone().into_iter() {:?} disagree", obs.order, o2, o3)));
    }
    obs
}

/// Same history, then 32 more keys: makes a difference of the hasher state visible in the order.
fn amplified(set: bool, hist: &[COp], keys: &[u8; 3]) -> Vec<u8> {
    if set {
        let mut cur = build_set(hist, keys);
        cur.extend(100u8..132);
        cur.iter().cloned().collect()
    } else {
        let mut cur = build_map(hist, keys);
        cur.extend((100u8..132).map(|k| (k, 0)));
        cur.keys().cloned().collect()
    }
}

fn build_set(hist: &[COp], keys: &[u8; 3]) -> DSet<u8> {
    let (ext, fi, other) = lists(keys);
    let mut cur: DSet<u8> = DSet::new();
    for op in hist.iter() {
        match op {
            COp::Ins(k) => {
                cur.insert(keys[*k as usize]);
            }
            COp::Rem(k) => {
                cur.remove(&keys[*k as usize]);
            }
            COp::Clear => cur.clear(),
            COp::Ext(w) => cur.extend(ext[*w as usize].iter().cloned()),
            COp::FromIter(w) => cur = DSet::from_iter(fi[*w as usize].iter().cloned()),
            COp::FromArr => cur = DSet::from([keys[1], keys[0]]),
            COp::CloneOp => cur = cur.clone(),
            COp::FromStd => {
                let mut s: std::collections::HashSet<u8, RandomState> = std::collections::HashSet::with_hasher(pinned_state());
                for k in cur.iter() {
                    s.insert(*k);
                }
                cur = DSet::from(s);
            }
            COp::ViaStd => {
                let s: std::collections::HashSet<u8, RandomState> = cur.into();
                cur = DSet::from(s);
            }
            COp::Retain(w) => {
                let (k0, k1) = (keys[0], keys[1]);
                if *w == 0 {
                    cur.retain(|k| *k != k0)
                } else {
                    cur.retain(|k| *k == k1)
                }
            }
            COp::Serde => cur = serde_json::from_str(&serde_json::to_string(&cur).unwrap()).unwrap(),
            COp::NewCap => cur = DSet::with_capacity(8),
            COp::Union(w) => cur = &cur | &DSet::from_iter(other[*w as usize].iter().cloned()),
            COp::Inter(w) => cur = &cur & &DSet::from_iter(other[*w as usize].iter().cloned()),
            COp::Diff(w) => cur = &cur - &DSet::from_iter(other[*w as usize].iter().cloned()),
            COp::Sym(w) => cur = &cur ^ &DSet::from_iter(other[*w as usize].iter().cloned()),
        }
    }
    cur
}

fn build_map(hist: &[COp], keys: &[u8; 3]) -> DMap<u8, u8> {
    let (ext, fi, _) = lists(keys);
    let mut cur: DMap<u8, u8> = DMap::new();
    for (i, op) in hist.iter().enumerate() {
        let val = 10 + i as u8;
        match op {
            COp::Ins(k) => {
                cur.insert(keys[*k as usize], val);
            }
            COp::Rem(k) => {
                cur.remove(&keys[*k as usize]);
            }
            COp::Clear => cur.clear(),
            COp::Ext(w) => cur.extend(ext[*w as usize].iter().map(|k| (*k, val))),
            COp::FromIter(w) => cur = DMap::from_iter(fi[*w as usize].iter().map(|k| (*k, val))),
            COp::FromArr => cur = DMap::from([(keys[1], val), (keys[0], val)]),
            COp::CloneOp => cur = cur.clone(),
            COp::FromStd => {
                let mut s: std::collections::HashMap<u8, u8, RandomState> = std::collections::HashMap::with_hasher(pinned_state());
                for (k, v) in cur.iter() {
                    s.insert(*k, *v);
                }
                cur = DMap::from(s);
            }
            COp::ViaStd => {
                let s: std::collections::HashMap<u8, u8, RandomState> = cur.into();
                cur = DMap::from(s);
            }
            COp::Retain(w) => {
                let (k0, k1) = (keys[0], keys[1]);
                if *w == 0 {
                    cur.retain(|k, _| *k != k0)
                } else {
                    cur.retain(|k, _| *k == k1)
                }
            }
            COp::Serde => cur = serde_json::from_str(&serde_json::to_string(&cur).unwrap()).unwrap(),
            COp::NewCap => cur = DMap::with_capacity(8),
            _ => unreachable!(),
        }
    }
    cur
}

/// Enumerate, in a fixed order, every history of length ≤ `maxlen` whose first operation index is
/// ≡ shard (mod nshards) (the empty history belongs to shard 0).
fn for_each_history(alpha: &[COp], maxlen: usize, shard: usize, nshards: usize, mut f: impl FnMut(&[COp], &[usize])) {
    let mut idx: Vec<usize> = Vec::new();
    let mut ops: Vec<COp> = Vec::new();
    if shard == 0 {
        f(&ops, &idx);
    }
    fn rec(alpha: &[COp], maxlen: usize, shard: usize, nshards: usize, idx: &mut Vec<usize>, ops: &mut Vec<COp>, f: &mut dyn FnMut(&[COp], &[usize])) {
        if idx.len() == maxlen {
            return;
        }
        for (i, a) in alpha.iter().enumerate() {
            if idx.is_empty() && i % nshards != shard {
                continue;
            }
            idx.push(i);
            ops.push(*a);
            f(ops, idx);
            rec(alpha, maxlen, shard, nshards, idx, ops, f);
            idx.pop();
            ops.pop();
        }
    }
    rec(alpha, maxlen, shard, nshards, &mut idx, &mut ops, &mut f);
}

fn order_line(o: &Obs) -> String {
    let mut s = String::with_capacity(16);
    for (i, k) in o.order.iter().enumerate() {
        if i > 0 {
            s.push(',');
        }
        s.push_str(&k.to_string());
    }
    s.push('|');
    s.push(if o.taint.is_some() { '1' } else { '0' });
    s
}

/// `coll-child <map|set> <maxlen> <shard> <nshards> <k0> <k1> <k2>`: one line per history.
pub fn child_main(args: &[String]) -> ! {
    let set = args[0] == "set";
    let maxlen: usize = args[1].parse().unwrap();
    let shard: usize = args[2].parse().unwrap();
    let nshards: usize = args[3].parse().unwrap();
    let keys: [u8; 3] = [args[4].parse().unwrap(), args[5].parse().unwrap(), args[6].parse().unwrap()];
    let alpha = alphabet(set);
    let refp = ref_probe();
    let out = std::io::stdout();
    let mut w = std::io::BufWriter::with_capacity(1 << 16, out.lock());
    for_each_history(&alpha, maxlen, shard, nshards, |ops, _| {
        let o = if set { run_set(ops, &keys, refp) } else { run_map(ops, &keys, refp) };
        let _ = writeln!(w, "{}", order_line(&o));
    });
    let _ = writeln!(w, "END");
    let _ = w.flush();
    std::process::exit(0)
}

#[derive(Default)]
pub struct ShardOut {
    histories: u64,
    builds: u64,
    tainted: u64,
    order_diff_inproc: u64,
    order_diff_child: u64,
    /// finding key -> (what, replay)
    findings: BTreeMap<String, (String, serde_json::Value)>,
    machinery: Vec<String>,
    /// contents (sorted keys) -> distinct iteration orders seen over untainted histories
    orders: BTreeMap<Vec<u8>, BTreeSet<Vec<u8>>>,
    per_len: BTreeMap<usize, u64>,
}

fn run_shard(set: bool, maxlen: usize, shard: usize, nshards: usize, keys: [u8; 3]) -> ShardOut {
    let mut out = ShardOut::default();
    let alpha = alphabet(set);
    let refp = ref_probe();
    let kind = if set { "set" } else { "map" };
    let exe = Ok::<std::path::PathBuf, std::io::Error>(std::path::PathBuf::from("/proc/self/exe")).expect("current_exe");
    let mut child = match std::process::Command::new(exe)
        .arg("coll-child")
        .arg(kind)
        .arg(maxlen.to_string())
        .arg(shard.to_string())
        .arg(nshards.to_string())
        .args(keys.iter().map(|k| k.to_string()))
        .stdout(std::process::Stdio::piped())
        .stderr(std::process::Stdio::null())
        .stdin(std::process::Stdio::null())
        .spawn()
    {
        Ok(c) => c,
        Err(e) => {
            out.machinery.push(format!("cannot spawn the collections child process: {}", e));
            return out;
        }
    };
    let mut lines = BufReader::with_capacity(1 << 16, child.stdout.take().unwrap()).lines();
    let mut child_ok = true;
    for_each_history(&alpha, maxlen, shard, nshards, |ops, idx| {
        out.histories += 1;
        *out.per_len.entry(ops.len()).or_insert(0) += 1;
        let a = if set { run_set(ops, &keys, refp) } else { run_map(ops, &keys, refp) };
        let b = if set { run_set(ops, &keys, refp) } else { run_map(ops, &keys, refp) };
        out.builds += 2;
        let c_line = if child_ok {
            match lines.next() {
                Some(Ok(l)) => Some(l),
                _ => {
                    child_ok = false;
                    out.machinery.push(format!("collections child process ({} shard {}) ended early at history {:?}", kind, shard, ops));
                    None
                }
            }
        } else {
            None
        };
        if c_line.is_some() {
            out.builds += 1;
        }
        let replay = |what: &str| json!({"engine": "coll", "kind": kind, "keys": keys, "ops": idx, "history": ops.iter().map(|o| format!("{:?}", o)).collect::<Vec<_>>(), "note": what});
        // 2. std equivalence
        if let Some((i, d)) = &a.std_diff {
            let api = ops.get(*i).map(|o| o.api(set)).unwrap_or_else(|| "iterators".into());
            let key = format!("collections/differs-from-std/{}", api);
            out.findings.entry(key).or_insert_with(|| (format!("history {:?} on keys {:?}: after operation #{} {}", ops, keys, i, d), replay("std-diff")));
        }
        // 3. hasher probe (deterministic)
        if let Some(i) = a.taint {
            out.tainted += 1;
            let api = ops[i].api(set);
            let key = format!("collections/hasher-not-the-fixed-one/{}", api);
            let shorter = match out.findings.get(&key) {
                None => true,
                Some(old) => old.1["ops"].as_array().map(|a| a.len()).unwrap_or(99) > ops.len(),
            };
            if shorter {
                let (x, y) = (amplified(set, ops, &keys), amplified(set, ops, &keys));
                let what = format!(
                    "history {:?} on keys {:?}: after operation #{} ({}) the collection's BuildHasher is no longer the fixed RandomState, so its iteration order is not a function of its history; two instances built by this history and extended by keys 100..132 iterate {}",
                    ops,
                    keys,
                    i,
                    api,
                    if x != y { "in different orders in this very process" } else { "alike in this run (by chance)" }
                );
                out.findings.insert(key, (what, replay("hasher")));
            }
        }
        // 1. order: instances and processes
        let same_inproc = a.order == b.order;
        let same_child = c_line.as_ref().map(|l| *l == order_line(&a));
        if !same_inproc {
            out.order_diff_inproc += 1;
        }
        if same_child == Some(false) {
            out.order_diff_child += 1;
        }
        if a.taint.is_none() && b.taint.is_none() {
            if !same_inproc || same_child == Some(false) {
                let key = format!("collections/order-differs/last-operation-{}", ops.last().map(|o| o.api(set)).unwrap_or_else(|| "none".into()));
                let shorter = match out.findings.get(&key) {
                    None => true,
                    Some(old) => old.1["ops"].as_array().map(|a| a.len()).unwrap_or(99) > ops.len(),
                };
                if shorter {
                    out.findings.insert(
                        key,
                        (
                            format!("history {:?} on keys {:?} iterates {:?} in one instance, {:?} in a second instance and '{}' in a separate process although every collection involved uses the fixed hasher", ops, keys, a.order, b.order, c_line.clone().unwrap_or_default()),
                            replay("order"),
                        ),
                    );
                }
            }
            let mut c = a.order.clone();
            c.sort();
            out.orders.entry(c).or_default().insert(a.order.clone());
        }
    });
    if child_ok {
        match lines.next() {
            Some(Ok(l)) if l == "END" => {}
            other => out.machinery.push(format!("collections child process ({} shard {}) out of step at the end: {:?}", kind, shard, other.map(|r| r.ok()))),
        }
    }
    let _ = child.wait();
    out
}

pub struct CollOut {
    shards: Vec<(bool, ShardOut)>,
    keys: [u8; 3],
    keys_sensitive: bool,
    maxlen: usize,
    wall: f64,
    from_std_note: serde_json::Value,
}

/// `From<std collection>`: deterministic demonstration that the result's order is inherited from the
/// source's (arbitrary) iteration order — same contents, two different pinned hasher states.
fn from_std_observation(keys: &[u8; 3]) -> serde_json::Value {
    let mut s1: std::collections::HashSet<u8, RandomState> = std::collections::HashSet::with_hasher(pinned_state());
    let mut s2: std::collections::HashSet<u8, RandomState> = std::collections::HashSet::with_hasher(pinned_state2());
    for k in keys {
        s1.insert(*k);
        s2.insert(*k);
    }
    let src1: Vec<u8> = s1.iter().cloned().collect();
    let src2: Vec<u8> = s2.iter().cloned().collect();
    let d1: Vec<u8> = DSet::from(s1).iter().cloned().collect();
    let d2: Vec<u8> = DSet::from(s2).iter().cloned().collect();
    json!({
        "what": "HashSet::from(std set): the source is drained in ITS iteration order, so for colliding keys the result's order depends on the source's hasher state (not judged: the source's order is an input, not part of the deterministic collection's own history)",
        "source_order_state_1": src1, "result_order_1": d1, "source_order_state_2": src2, "result_order_2": d2,
        "result_orders_differ": d1 != d2,
    })
}

pub fn run(thorough: bool) -> CollOut {
    let t0 = std::time::Instant::now();
    let (keys, sens) = choose_keys();
    let maxlen = if thorough { 5 } else { 4 };
    let nshards = if thorough { 16 } else { 6 };
    let mut handles = Vec::new();
    for set in [true, false] {
        for shard in 0..nshards {
            handles.push((set, std::thread::spawn(move || run_shard(set, maxlen, shard, nshards, keys))));
        }
    }
    let mut shards = Vec::new();
    for (set, h) in handles {
        match h.join() {
            Ok(o) => shards.push((set, o)),
            Err(_) => {
                let mut o = ShardOut::default();
                o.machinery.push("collections shard thread panicked".into());
                shards.push((set, o));
            }
        }
    }
    CollOut {
        shards,
        keys,
        keys_sensitive: sens,
        maxlen,
        wall: t0.elapsed().as_secs_f64(),
        from_std_note: from_std_observation(&keys),
    }
}

impl CollOut {
    pub fn fold_into(self, res: &mut vx::common::CheckResult) {
        let mut findings: BTreeMap<String, (String, serde_json::Value)> = BTreeMap::new();
        let mut per_kind = serde_json::Map::new();
        let mut total_hist = 0u64;
        let mut total_builds = 0u64;
        let mut multi_order_contents = 0u64;
        for set in [false, true] {
            let mut h = 0u64;
            let mut b = 0u64;
            let mut tainted = 0u64;
            let mut d_in = 0u64;
            let mut d_ch = 0u64;
            let mut orders: BTreeMap<Vec<u8>, BTreeSet<Vec<u8>>> = BTreeMap::new();
            let mut per_len: BTreeMap<usize, u64> = BTreeMap::new();
            for (s, o) in self.shards.iter().filter(|(s, _)| *s == set) {
                let _ = s;
                h += o.histories;
                b += o.builds;
                tainted += o.tainted;
                d_in += o.order_diff_inproc;
                d_ch += o.order_diff_child;
                for (k, v) in &o.orders {
                    orders.entry(k.clone()).or_default().extend(v.iter().cloned());
                }
                for (k, v) in &o.per_len {
                    *per_len.entry(*k).or_insert(0) += v;
                }
                for m in &o.machinery {
                    res.machinery_errors.push(format!("collections: {}", m));
                }
                for (k, v) in &o.findings {
                    // keep the shortest witness (shards enumerate by first operation)
                    let better = match findings.get(k) {
                        None => true,
                        Some(old) => v.1["ops"].as_array().map(|a| a.len()).unwrap_or(99) < old.1["ops"].as_array().map(|a| a.len()).unwrap_or(99),
                    };
                    if better {
                        findings.insert(k.clone(), v.clone());
                    }
                }
            }
            let multi = orders.values().filter(|v| v.len() >= 2).count() as u64;
            multi_order_contents += multi;
            total_hist += h;
            total_builds += b;
            per_kind.insert(
                if set { "HashSet".into() } else { "HashMap".into() },
                json!({
                    "alphabet": alphabet(set).iter().map(|o| format!("{:?}", o)).collect::<Vec<_>>(),
                    "histories": h, "histories_per_length": per_len, "builds(2 in-process + 1 child process)": b,
                    "histories_yielding_a_collection_without_the_fixed_hasher": tainted,
                    "distinct_contents": orders.len(), "contents_reached_in_2plus_iteration_orders(history-sensitivity, untainted histories)": multi,
                    "sample_orders": orders.iter().filter(|(_, v)| v.len() >= 2).take(2).map(|(k, v)| json!({"contents": k, "orders": v})).collect::<Vec<_>>(),
                    "observed_order_differences_between_two_in_process_instances(informational, depends on OS randomness while F9 is present)": d_in,
                    "observed_order_differences_against_the_child_process(informational)": d_ch,
                }),
            );
        }
        for (k, (what, replay)) in findings {
            res.finding(k, what, replay);
        }
        res.add_count("evaluations", total_builds);
        res.add_count("distinct_nontrivial", multi_order_contents);
        res.cov(
            "part_C_collections",
            json!({
                "keys": self.keys, "keys_make_iteration_order_insertion_sensitive": self.keys_sensitive,
                "max_history_length": self.maxlen, "histories": total_hist, "builds": total_builds, "wall_s": self.wall,
                "per_collection": per_kind, "from_std_observation": self.from_std_note,
            }),
        );
        res.cov(
            "collections_rule",
            "ALL operation histories of length <= L (quick 4, thorough 5) over the listed alphabet, for HashMap<u8,u8> and HashSet<u8>, on 3 keys chosen so that the 3-key table's order depends on insertion order; each history is built twice in this process and once in a separate child process (which enumerates independently and streams its observations); evaluations counts builds; a content set counts as non-trivial when histories reach it in >= 2 different iteration orders",
        );
        if !self.keys_sensitive {
            res.machinery_errors.push("collections: no key triple with insertion-sensitive order found below 64".into());
        }
        let cur = res.coverage.get("exhaustive").and_then(|v| v.as_bool()).unwrap_or(true);
        res.cov("exhaustive", cur);
        res.sample(json!({"collections_history": ["Ins(0)", "Ins(1)", "Serde"], "meaning": "insert k0, insert k1, serde_json round trip; observation = final iteration order + hasher probe + std comparison"}));
    }
}

/// `--replay` of one history: build it twice here, show orders, probe and the amplified orders.
pub fn replay(r: &serde_json::Value) {
    let set = r["kind"].as_str() == Some("set");
    let keys: Vec<u8> = r["keys"].as_array().unwrap().iter().map(|v| v.as_u64().unwrap() as u8).collect();
    let keys = [keys[0], keys[1], keys[2]];
    let alpha = alphabet(set);
    let ops: Vec<COp> = r["ops"].as_array().unwrap().iter().map(|v| alpha[v.as_u64().unwrap() as usize]).collect();
    let refp = ref_probe();
    println!("{} history {:?} on keys {:?}", if set { "HashSet" } else { "HashMap" }, ops, keys);
    for i in 0..2 {
        let o = if set { run_set(&ops, &keys, refp) } else { run_map(&ops, &keys, refp) };
        println!(
            "  instance {}: iteration order {:?}; hasher is the fixed one: {}; first difference from std: {:?}",
            i + 1,
            o.order,
            match o.taint {
                None => "yes".to_string(),
                Some(i) => format!("NO (since operation #{} {:?})", i, ops[i]),
            },
            o.std_diff
        );
    }
    let (x, y) = (amplified(set, &ops, &keys), amplified(set, &ops, &keys));
    println!("  same history + keys 100..132, instance 1: {:?}", x);
    println!("  same history + keys 100..132, instance 2: {:?}", y);
    println!("  amplified orders equal: {}", x == y);
}
