//! E5 — bounded-exhaustive generators.  Every family is a deterministic sequence of *items* (one
//! schedule, or one malformed-string base); an item expands into *cases* (input string + what the
//! statement demands).  (family, item index, case index) therefore names one input for ever, which is
//! what lets the parent re-create the input a dead worker was decoding.

use crate::eval::{Case, Expect, Kind, Outcome};
use crate::refdec::{canonical_layout, Class, Ref};
use serde_json::{json, Value};
use shuttle_engine::runtime::task::TaskId;
use shuttle_engine::scheduler::{Schedule, ScheduleStep};
use vx::common::Tier;

// ---------------------------------------------------------------------------------------------
// small helpers

pub fn t(id: usize) -> ScheduleStep {
    ScheduleStep::Task(TaskId::from(id))
}
pub const R: ScheduleStep = ScheduleStep::Random;

pub fn step_str(s: &ScheduleStep) -> String {
    match s {
        ScheduleStep::Task(id) => format!("T{}", usize::from(*id)),
        ScheduleStep::Random => "R".into(),
    }
}

pub fn sched_brief(s: &Schedule) -> String {
    let shown: Vec<String> = s.steps.iter().take(12).map(step_str).collect();
    let more = if s.steps.len() > 12 {
        format!(" … {} steps", s.steps.len())
    } else {
        String::new()
    };
    format!("{{seed={} [{}{}]}}", s.seed, shown.join(" "), more)
}

pub fn sched_to_json(s: &Schedule) -> Value {
    // run-length encoded so that 16k-step schedules stay small: "T1*200 R*3 T5"
    let mut parts: Vec<String> = Vec::new();
    let mut i = 0;
    while i < s.steps.len() {
        let mut j = i;
        while j < s.steps.len() && s.steps[j] == s.steps[i] {
            j += 1;
        }
        if j - i > 1 {
            parts.push(format!("{}*{}", step_str(&s.steps[i]), j - i));
        } else {
            parts.push(step_str(&s.steps[i]));
        }
        i = j;
    }
    json!({"seed": s.seed.to_string(), "steps": parts.join(" ")})
}

pub fn sched_from_json(v: &Value) -> Option<Schedule> {
    let seed = v.get("seed")?.as_str()?.parse::<u64>().ok()?;
    let mut steps = Vec::new();
    for p in v.get("steps")?.as_str()?.split_whitespace() {
        let (sym, n) = match p.split_once('*') {
            Some((a, b)) => (a, b.parse::<usize>().ok()?),
            None => (p, 1),
        };
        let st = if sym == "R" {
            R
        } else {
            t(sym.strip_prefix('T')?.parse::<usize>().ok()?)
        };
        for _ in 0..n {
            steps.push(st.clone());
        }
    }
    Some(Schedule { seed, steps })
}

pub fn hash_sched(s: &Schedule) -> u64 {
    let mut h: u64 = 0xcbf29ce484222325;
    let mut mix = |v: u64| {
        for b in v.to_le_bytes() {
            h ^= b as u64;
            h = h.wrapping_mul(0x100000001b3);
        }
    };
    mix(s.seed);
    mix(s.steps.len() as u64);
    for st in &s.steps {
        match st {
            ScheduleStep::Task(id) => {
                mix(0);
                mix(usize::from(*id) as u64)
            }
            ScheduleStep::Random => mix(1),
        }
    }
    h
}

/// Non-trivial = the bit packing is exercised in a non-degenerate way: at least two steps that are
/// not all equal, or an encoding that spans more than one printed line.
pub fn nontrivial(s: &Schedule, printed: &str) -> bool {
    (s.steps.len() >= 2 && s.steps.iter().any(|x| *x != s.steps[0])) || printed.contains('\n')
}

pub fn leb(mut v: u64, out: &mut Vec<u8>) {
    loop {
        let c = (v & 0x7f) as u8;
        v >>= 7;
        if v == 0 {
            out.push(c);
            return;
        }
        out.push(c | 0x80);
    }
}

pub fn hex_lower(b: &[u8]) -> String {
    const D: &[u8; 16] = b"0123456789abcdef";
    let mut s = String::with_capacity(b.len() * 2);
    for x in b {
        s.push(D[(x >> 4) as usize] as char);
        s.push(D[(x & 15) as usize] as char);
    }
    s
}

/// seeds at every varint length boundary
pub fn seeds_all() -> Vec<u64> {
    let mut v = vec![0u64, 1];
    for k in 1..=9u32 {
        v.push((1u64 << (7 * k)) - 1);
        v.push(1u64 << (7 * k));
    }
    v.push(u64::MAX);
    v.sort();
    v.dedup();
    v
}

/// task ids at every bit-width boundary
pub fn ids_all() -> Vec<usize> {
    let mut v = vec![0usize, 1, 2, 3];
    for k in 1..=63u32 {
        v.push((1usize << k) - 1);
        v.push(1usize << k);
    }
    v.push(usize::MAX);
    v.sort();
    v.dedup();
    v
}

// ---------------------------------------------------------------------------------------------
// families

#[derive(Clone, Copy, Debug, PartialEq, Eq)]
pub enum Family {
    Boundary,
    Seq3,
    Long,
    Fixed,
    Magic,
    HdrSub,
    Width,
    Length,
}

impl Family {
    /// Start order: the families in which the decoder kills workers come first (their shards are
    /// latency-bound: one process restart per death), then the CPU-bound ones, largest first.
    pub const ALL: [Family; 8] = [
        Family::Length,
        Family::HdrSub,
        Family::Seq3,
        Family::Boundary,
        Family::Long,
        Family::Width,
        Family::Magic,
        Family::Fixed,
    ];
    pub fn name(&self) -> &'static str {
        match self {
            Family::Boundary => "boundary",
            Family::Seq3 => "seq3",
            Family::Long => "long",
            Family::Fixed => "fixed",
            Family::Magic => "magic",
            Family::HdrSub => "hdrsub",
            Family::Width => "width",
            Family::Length => "length",
        }
    }
    pub fn from_name(s: &str) -> Option<Family> {
        Family::ALL.iter().copied().find(|f| f.name() == s)
    }
    /// how many worker processes share this family
    pub fn shards(&self, _tier: Tier) -> u64 {
        match self {
            Family::Seq3 | Family::Long | Family::HdrSub | Family::Length => 16,
            Family::Boundary => 8,
            _ => 1,
        }
    }
}

/// Bounds per tier (all reported in the evidence).
pub struct Bounds {
    pub seq_len: usize,
    pub long_max: usize,
    pub prefix_bound: usize,
}
pub fn bounds(tier: Tier) -> Bounds {
    if tier.is_thorough() {
        Bounds { seq_len: 11, long_max: 1200, prefix_bound: 160 }
    } else {
        Bounds { seq_len: 7, long_max: 400, prefix_bound: 64 }
    }
}

/// The (a, b) pairs of the ternary-sequence family.  All ids are distinct across pairs, so two
/// different (pair, seed, sequence) triples give different schedules as soon as a task step occurs;
/// the all-Random sequences are emitted for the first pair only.
pub fn seq_pairs() -> Vec<(usize, usize)> {
    vec![
        (0, 1),                   // width 1 / 1
        (2, 3),                   // 2 / 2
        (7, 8),                   // 3 / 4: the width depends on which ids occur
        (255, 256),               // 8 / 9: byte boundary
        (65535, 65536),           // 16 / 17
        (u32::MAX as usize, 1 << 32), // 32 / 33
        ((1 << 63) - 1, 1 << 63), // 63 / 64
        (5, usize::MAX),          // 3 / 64: maximal spread
        (6, 1 << 40),             // 3 / 41
    ]
}
pub fn seq_seeds() -> Vec<u64> {
    vec![1, u64::MAX]
}

#[derive(Clone, Copy)]
struct Derive {
    lenient_full: bool,
    prefix_bound: usize,
    odd_drop: bool,
    nonhex: bool,
    trailing: bool,
}

pub trait Sink {
    /// Start the next item; false = not this worker's item (nothing of it may be built).
    fn begin(&mut self) -> bool;
    fn end(&mut self);
    /// Encode through the real encoder (a panic there is reported by the sink).
    fn encode(&mut self, s: &Schedule) -> Option<String>;
    fn note_roundtrip(&mut self, s: &Schedule, printed: &str);
    /// Evaluate one case; returns the outcome when the case was actually executed.
    fn case(&mut self, c: Case) -> Option<(Outcome, Ref)>;
    fn note_padding_only(&mut self, decoded_same: bool);
    fn machinery(&mut self, msg: String);
}

const NONHEX: [char; 8] = ['g', 'G', 'z', '-', ':', '/', '\u{e9}', '\u{ff11}'];

fn rewrap(h: &str, w: usize) -> String {
    let mut out = String::with_capacity(h.len() + h.len() / w + 1);
    for (i, c) in h.chars().enumerate() {
        if i > 0 && i % w == 0 {
            out.push('\n');
        }
        out.push(c);
    }
    out
}

fn roundtrip_item(sink: &mut dyn Sink, s: &Schedule, d: Derive) {
    let p = match sink.encode(s) {
        Some(p) => p,
        None => return,
    };
    sink.note_roundtrip(s, &p);
    let multi = p.contains('\n');
    let h: String = p.chars().filter(|c| *c != '\n').collect();
    let ex = || Expect::Exactly(s.clone());
    let le = || Expect::NoneOr(s.clone());

    // --- what the statement promises: as printed, without its line breaks, surrounding whitespace
    let base = sink.case(Case { kind: Kind::Strict, label: "as-printed", input: p.clone(), expect: ex() });
    if matches!(base, Some((o, _)) if o != Outcome::SomeExpected) {
        // The encoding as printed does not round-trip: that is the finding.  Re-formatted copies,
        // prefixes etc. of a broken encoding say nothing more, and would only multiply keys.
        return;
    }
    if multi {
        sink.case(Case { kind: Kind::Strict, label: "line-breaks-removed", input: h.clone(), expect: ex() });
        sink.case(Case { kind: Kind::Strict, label: "padded-line-breaks-removed", input: format!(" \n{}\n ", h), expect: ex() });
    }
    // the form the failure message prints: a quote, a newline, the schedule, a newline, a quote
    sink.case(Case { kind: Kind::Strict, label: "newline-wrapped", input: format!("\n{}\n", p), expect: ex() });
    sink.case(Case { kind: Kind::Strict, label: "space-padded", input: format!("  {}  ", p), expect: ex() });
    sink.case(Case { kind: Kind::Strict, label: "mixed-ws-padded", input: format!("\t \r\n{}\r\n\t ", p), expect: ex() });

    // --- re-formatted: rejecting is allowed, decoding to something else or crashing is not
    let spaced: String = h.chars().flat_map(|c| [c, ' ']).collect();
    sink.case(Case { kind: Kind::Lenient, label: "spaced-digits", input: spaced, expect: le() });
    sink.case(Case { kind: Kind::Lenient, label: "uppercase", input: p.to_uppercase(), expect: le() });
    sink.case(Case { kind: Kind::Lenient, label: "unicode-ws-padded", input: format!("\u{a0}\u{2003}{}\u{3000}\u{2028}", p), expect: le() });
    if multi {
        sink.case(Case { kind: Kind::Lenient, label: "crlf", input: p.replace('\n', "\r\n"), expect: le() });
    }
    if d.lenient_full {
        let ind: String = p.lines().map(|l| format!("    {} \n", l)).collect();
        sink.case(Case { kind: Kind::Lenient, label: "indented-lines", input: ind, expect: le() });
        for (w, label) in [(2usize, "rewrap-2"), (75, "rewrap-75"), (77, "rewrap-77")] {
            sink.case(Case { kind: Kind::Lenient, label, input: rewrap(&h, w), expect: le() });
        }
    }

    // --- every proper prefix, per hex digit (all of them up to the bound; head, tail and the
    //     needed/padding frontier for longer encodings)
    let (hdr, needed, _reserved) = canonical_layout(s);
    let n = h.len();
    let frontier = 2 * (hdr + ((needed + 7) / 8) as usize);
    let mut ks: Vec<usize> = Vec::new();
    if n <= d.prefix_bound {
        ks.extend(0..n);
    } else {
        ks.extend(0..32.min(n));
        ks.extend(frontier.saturating_sub(8)..(frontier + 8).min(n));
        ks.extend(n.saturating_sub(96)..n);
        ks.sort();
        ks.dedup();
    }
    for k in ks {
        let input = h[..k].to_string();
        // expected classification from arithmetic on the schedule, independent of the reference
        let want: Result<(), Class> = if k == 0 {
            Err(Class::Empty)
        } else if k % 2 == 1 {
            Err(Class::OddLength)
        } else if k / 2 < hdr {
            Err(Class::TruncHeader)
        } else if ((k / 2 - hdr) as u128) * 8 < needed {
            Err(Class::TruncBody)
        } else {
            Ok(())
        };
        let out = sink.case(Case { kind: Kind::Prefix, label: "prefix", input, expect: Expect::ByRef });
        if let Some((_, r)) = &out {
            let agrees = match (&want, r) {
                (Ok(()), Ref::Valid(x)) => x == s,
                (Err(c), Ref::Invalid(c2)) => c == c2,
                _ => false,
            };
            if !agrees {
                sink.machinery(format!(
                    "reference self-check: prefix {} of the encoding of {} is {:?} by layout arithmetic but the reference reads {}",
                    k,
                    sched_brief(s),
                    want.as_ref().err().map(|c| c.name()).unwrap_or("valid"),
                    r.describe()
                ));
            }
        }
        if want.is_ok() {
            if let Some((o, _)) = out {
                sink.note_padding_only(o == Outcome::SomeExpected);
            }
        }
    }

    if d.odd_drop && n <= 64 {
        for k in 0..n {
            let mut x = String::with_capacity(n);
            x.push_str(&h[..k]);
            x.push_str(&h[k + 1..]);
            sink.case(Case { kind: Kind::OddDrop, label: "digit-dropped", input: x, expect: Expect::ByRef });
        }
    }
    if d.nonhex && n <= 40 {
        for k in 0..n {
            for c in NONHEX {
                let mut x = String::with_capacity(n + 3);
                x.push_str(&h[..k]);
                x.push(c);
                x.push_str(&h[k + 1..]);
                sink.case(Case { kind: Kind::NonHexSub, label: "non-hex-substitution", input: x, expect: Expect::ByRef });
            }
        }
    }
    if d.trailing {
        for tail in ["00", "ff", "0000000000000000", "91"] {
            sink.case(Case { kind: Kind::Trailing, label: "trailing-bytes", input: format!("{}{}", h, tail), expect: Expect::ByRef });
        }
    }
}

fn family_boundary(_tier: Tier, b: &Bounds, sink: &mut dyn Sink) {
    let d = Derive { lenient_full: true, prefix_bound: b.prefix_bound, odd_drop: true, nonhex: true, trailing: true };
    for seed in seeds_all() {
        for steps in [vec![], vec![R], vec![R, R, R]] {
            if sink.begin() {
                roundtrip_item(sink, &Schedule { seed, steps }, d);
            }
            sink.end();
        }
        for id in ids_all() {
            for shape in 0..7 {
                if sink.begin() {
                    let steps = match shape {
                        0 => vec![t(id)],
                        1 => vec![t(id), R],
                        2 => vec![R, t(id)],
                        3 => vec![t(0), t(id)],
                        4 => vec![t(id), t(id / 2)],
                        5 => vec![R, t(id), R, t(id), R],
                        _ => vec![t(id), t(id), t(id)],
                    };
                    let dd = Derive { nonhex: shape < 3, odd_drop: shape < 5, ..d };
                    roundtrip_item(sink, &Schedule { seed, steps }, dd);
                }
                sink.end();
            }
        }
    }
}

fn family_seq3(_tier: Tier, b: &Bounds, sink: &mut dyn Sink) {
    for (pi, (a, bb)) in seq_pairs().into_iter().enumerate() {
        for seed in seq_seeds() {
            for len in 0..=b.seq_len {
                let total = 3usize.pow(len as u32);
                for code in 0..total {
                    // all-Random sequences (every digit 2) only for the first pair
                    if pi > 0 && code == total - 1 {
                        continue;
                    }
                    if sink.begin() {
                        let mut steps = Vec::with_capacity(len);
                        let mut c = code;
                        for _ in 0..len {
                            steps.push(match c % 3 {
                                0 => t(a),
                                1 => t(bb),
                                _ => R,
                            });
                            c /= 3;
                        }
                        let d = Derive {
                            lenient_full: false,
                            prefix_bound: b.prefix_bound,
                            odd_drop: len <= 4,
                            nonhex: len <= 3,
                            trailing: len <= 4,
                        };
                        roundtrip_item(sink, &Schedule { seed, steps }, d);
                    }
                    sink.end();
                }
            }
        }
    }
}

pub const LONG_PATTERNS: usize = 12;
pub fn long_pattern(pat: usize, n: usize) -> Vec<ScheduleStep> {
    (0..n)
        .map(|i| match pat {
            0 => R,
            1 => t(0),
            2 => t(1),
            3 => t(255),
            4 => t(usize::MAX),
            5 => {
                if i % 2 == 0 {
                    t(1)
                } else {
                    R
                }
            }
            6 => {
                if i % 2 == 0 {
                    R
                } else {
                    t(1)
                }
            }
            7 => match i % 3 {
                0 => t(2),
                1 => t(5),
                _ => R,
            },
            8 => t(i),
            // Random everywhere, one 64-bit id at the end: needed bits n+64, reserved 65n
            9 => {
                if i + 1 == n {
                    t(usize::MAX)
                } else {
                    R
                }
            }
            // one 64-bit id first, then Random: everything after the first ~9+n/8 bytes is padding
            10 => {
                if i == 0 {
                    t(usize::MAX)
                } else {
                    R
                }
            }
            _ => {
                if i == n / 2 {
                    R
                } else {
                    t(3)
                }
            }
        })
        .collect()
}

fn family_long(tier: Tier, b: &Bounds, sink: &mut dyn Sink) {
    let d = Derive { lenient_full: true, prefix_bound: b.prefix_bound, odd_drop: false, nonhex: false, trailing: true };
    let seeds: Vec<u64> = if tier.is_thorough() {
        vec![0, 127, 128, 1 << 63, u64::MAX]
    } else {
        vec![0, 1 << 63]
    };
    for n in 0..=b.long_max {
        for pat in 0..LONG_PATTERNS {
            for &seed in &seeds {
                if sink.begin() {
                    roundtrip_item(sink, &Schedule { seed, steps: long_pattern(pat, n) }, d);
                }
                sink.end();
            }
        }
    }
    // the 2 -> 3 byte boundary of the length varint
    for n in [16383usize, 16384, 16385] {
        for pat in [0usize, 2, 5, 7, 9] {
            if sink.begin() {
                roundtrip_item(sink, &Schedule { seed: 300, steps: long_pattern(pat, n) }, d);
            }
            sink.end();
        }
    }
}

fn hdr_bases(tier: Tier) -> Vec<Schedule> {
    let mut v = Vec::new();
    let seeds = if tier.is_thorough() {
        seeds_all()
    } else {
        // one seed per varint length 1, 2, 3, 5, 6, 9, 10 bytes
        vec![0, 127, 128, 1 << 14, (1 << 35) - 1, 1 << 35, 1 << 56, 1 << 63, u64::MAX]
    };
    for seed in seeds {
        for steps in [
            vec![],
            vec![R],
            vec![t(1)],
            vec![t(3), R, t(0)],
            vec![t(usize::MAX)],
            vec![t(255), t(256), R],
            long_pattern(0, 128),
            long_pattern(2, 200),
            vec![t(1 << 20), t(5), t(1 << 20)],
        ] {
            v.push(Schedule { seed, steps });
        }
    }
    v
}

fn family_hdrsub(tier: Tier, sink: &mut dyn Sink) {
    const D: &[u8; 16] = b"0123456789abcdef";
    for s in hdr_bases(tier) {
        if sink.begin() {
            if let Some(p) = sink.encode(&s) {
                let h: String = p.chars().filter(|c| *c != '\n').collect();
                let (hdr, _, _) = canonical_layout(&s);
                let hb = h.as_bytes();
                for pos in 0..(2 * hdr).min(hb.len()) {
                    for dgt in D.iter() {
                        if *dgt == hb[pos] {
                            continue;
                        }
                        let mut x = hb.to_vec();
                        x[pos] = *dgt;
                        sink.case(Case {
                            kind: Kind::HeaderSub,
                            label: "header-digit-substitution",
                            input: String::from_utf8(x).unwrap(),
                            expect: Expect::ByRef,
                        });
                    }
                }
            }
        }
        sink.end();
    }
}

pub fn raw_string(width: u64, len: u64, seed: u64, payload: &[u8]) -> String {
    let mut b = vec![crate::refdec::MAGIC];
    leb(width, &mut b);
    leb(len, &mut b);
    leb(seed, &mut b);
    b.extend_from_slice(payload);
    hex_lower(&b)
}

fn family_width(sink: &mut dyn Sink) {
    let widths: Vec<u64> = vec![
        0, 1, 2, 63, 64, 65, 66, 100, 127, 128, 255, 256, 16383, 16384, 1 << 31, u32::MAX as u64, 1 << 32,
        (1 << 63) - 1, 1 << 63, u64::MAX - 1, u64::MAX,
    ];
    let sizes: Vec<usize> = (0..=20).chain([24, 32, 40]).collect();
    for &w in &widths {
        for len in [0u64, 1, 2, 3, 9] {
            if sink.begin() {
                for pat in [0x00u8, 0xff, 0xaa, 0x55] {
                    for &sz in &sizes {
                        sink.case(Case {
                            kind: Kind::WidthField,
                            label: "width-field",
                            input: raw_string(w, len, 5, &vec![pat; sz]),
                            expect: Expect::ByRef,
                        });
                    }
                }
            }
            sink.end();
        }
    }
}

fn family_length(tier: Tier, sink: &mut dyn Sink) {
    let mut lens: Vec<u64> = vec![1, 2, 3, 5, 8, 9, 16, 17, 24, 25, 64, 65, 127, 128, 129];
    for k in [14u32, 21, 26, 27, 28, 31, 32, 35, 42, 49, 56, 59, 60, 63] {
        lens.push((1u64 << k) - 1);
        lens.push(1u64 << k);
    }
    lens.push(u64::MAX);
    let (widths, sizes): (&[u64], &[usize]) = if tier.is_thorough() { (&[1, 8, 64], &[0, 1, 2, 3, 8]) } else { (&[1, 64], &[0, 1, 8]) };
    for &len in &lens {
        for &w in widths {
            if sink.begin() {
                for pat in [0x00u8, 0xff] {
                    for &sz in sizes {
                        sink.case(Case {
                            kind: Kind::LengthField,
                            label: "length-field",
                            input: raw_string(w, len, 0, &vec![pat; sz]),
                            expect: Expect::ByRef,
                        });
                    }
                }
            }
            sink.end();
        }
    }
}

fn family_magic(sink: &mut dyn Sink) {
    let bases = vec![
        Schedule { seed: 0, steps: vec![] },
        Schedule { seed: 1, steps: vec![R] },
        Schedule { seed: u64::MAX, steps: vec![t(1), R] },
        Schedule { seed: 7, steps: vec![t(usize::MAX)] },
        Schedule { seed: 1 << 35, steps: long_pattern(5, 100) },
    ];
    for s in bases {
        if sink.begin() {
            if let Some(p) = sink.encode(&s) {
                for b in 0..=255u8 {
                    if b == crate::refdec::MAGIC {
                        continue;
                    }
                    let x = format!("{}{}", hex_lower(&[b]), &p[2..]);
                    sink.case(Case { kind: Kind::Magic, label: "first-byte", input: x, expect: Expect::ByRef });
                }
            }
        }
        sink.end();
    }
}

fn family_fixed(sink: &mut dyn Sink) {
    let mut v: Vec<String> = [
        "", " ", "\n", "\t\r\n  ", "\u{a0}", "\u{3000}\u{2028}", "\"\"", "zz", "0x91010100", "91 01 01 0g", "9101010",
        "9", "91", "910", "9101", "910101", "91010100", "91020500", "91 02 05 00", "\n91020500\n", "g1010000",
        "91010000", "\u{669}\u{661}", "\u{ff19}\u{ff11}\u{ff10}\u{ff11}\u{ff10}\u{ff10}\u{ff10}\u{ff10}", "91010000\0",
        "-91010000", "+91010000", "91,01,00,00", "0X91010000", "91010000h", "91010000 # comment", "schedule000.txt",
        "917f0100", "91ff", "91ffffffffffffffffff", "91ffffffffffffffffff01", "91ffffffffffffffffff7f",
        "9101ffffffffffffffffff0100", "9101ffffffffffffffffff0200", "910101ffffffffffffffffff02",
    ]
    .iter()
    .map(|s| s.to_string())
    .collect();
    for c in 0u8..128 {
        let ch = c as char;
        v.push(ch.to_string());
        v.push(format!("910100{}0", ch));
        v.push(format!("{}{}", ch, ch));
    }
    for input in v {
        if sink.begin() {
            sink.case(Case { kind: Kind::Fixed, label: "fixed", input, expect: Expect::ByRef });
        }
        sink.end();
    }
}

pub fn run_family(f: Family, tier: Tier, sink: &mut dyn Sink) {
    let b = bounds(tier);
    match f {
        Family::Boundary => family_boundary(tier, &b, sink),
        Family::Seq3 => family_seq3(tier, &b, sink),
        Family::Long => family_long(tier, &b, sink),
        Family::Fixed => family_fixed(sink),
        Family::Magic => family_magic(sink),
        Family::HdrSub => family_hdrsub(tier, sink),
        Family::Width => family_width(sink),
        Family::Length => family_length(tier, sink),
    }
}
