//! One case = one input string + what the property statement demands of the decoder for it.
//! `observe` runs the real `deserialize_schedule` under `catch_unwind`; `judge` compares with the
//! expectation and with the reference reading.  Used identically by the workers and by `--replay`.

use crate::gen::{sched_brief, sched_from_json, sched_to_json};
use crate::refdec::{ref_decode, Class, Ref};
use serde_json::{json, Value};
use shuttle_engine::scheduler::serialization::{deserialize_schedule, serialize_schedule};
use shuttle_engine::scheduler::Schedule;
use std::cell::RefCell;

#[derive(Clone, Copy, Debug, PartialEq, Eq)]
pub enum Kind {
    Strict = 0,
    Lenient,
    Prefix,
    OddDrop,
    NonHexSub,
    Magic,
    HeaderSub,
    WidthField,
    LengthField,
    Fixed,
    Trailing,
}

impl Kind {
    pub const COUNT: usize = 11;
    pub const ALL: [Kind; 11] = [
        Kind::Strict,
        Kind::Lenient,
        Kind::Prefix,
        Kind::OddDrop,
        Kind::NonHexSub,
        Kind::Magic,
        Kind::HeaderSub,
        Kind::WidthField,
        Kind::LengthField,
        Kind::Fixed,
        Kind::Trailing,
    ];
    pub fn name(&self) -> &'static str {
        match self {
            Kind::Strict => "roundtrip-strict",
            Kind::Lenient => "roundtrip-lenient",
            Kind::Prefix => "prefix",
            Kind::OddDrop => "digit-dropped",
            Kind::NonHexSub => "non-hex-substitution",
            Kind::Magic => "first-byte",
            Kind::HeaderSub => "header-digit-substitution",
            Kind::WidthField => "width-field",
            Kind::LengthField => "length-field",
            Kind::Fixed => "fixed-malformed",
            Kind::Trailing => "trailing-bytes",
        }
    }
    pub fn from_name(s: &str) -> Option<Kind> {
        Kind::ALL.iter().copied().find(|k| k.name() == s)
    }
}

#[derive(Clone, Debug)]
pub enum Expect {
    /// The statement demands exactly `Some(s)`: encoder output as printed, without its line breaks,
    /// or with surrounding whitespace.
    Exactly(Schedule),
    /// Re-formatted encoder output the statement does not promise to accept (interior whitespace
    /// that is not one of its own line breaks, CRLF, upper case, Unicode spaces): the decoder may
    /// reject it, but must not decode it into a *different* schedule and must not crash.
    NoneOr(Schedule),
    /// Judge by the reference classification of the input.
    ByRef,
}

#[derive(Clone, Debug)]
pub struct Case {
    pub kind: Kind,
    pub label: &'static str,
    pub input: String,
    pub expect: Expect,
}

impl Case {
    pub fn to_json(&self) -> Value {
        let (e, s) = match &self.expect {
            Expect::Exactly(s) => ("exactly", Some(s)),
            Expect::NoneOr(s) => ("none-or", Some(s)),
            Expect::ByRef => ("by-reference", None),
        };
        json!({
            "kind": self.kind.name(),
            "label": self.label,
            "input": self.input,
            "expect": e,
            "schedule": s.map(sched_to_json),
        })
    }
    pub fn from_json(v: &Value) -> Option<Case> {
        let kind = Kind::from_name(v.get("kind")?.as_str()?)?;
        let input = v.get("input")?.as_str()?.to_string();
        let sched = v.get("schedule").and_then(sched_from_json);
        let expect = match v.get("expect")?.as_str()? {
            "exactly" => Expect::Exactly(sched?),
            "none-or" => Expect::NoneOr(sched?),
            _ => Expect::ByRef,
        };
        // labels are only used inside finding keys; leak is fine for a one-shot replay
        let label: &'static str = Box::leak(v.get("label")?.as_str()?.to_string().into_boxed_str());
        Some(Case { kind, label, input, expect })
    }
}

#[derive(Clone, Debug, PartialEq, Eq)]
pub enum Obs {
    None,
    Some(Schedule),
    Panic { msg: String, file: String, line: u32 },
}

impl Obs {
    pub fn describe(&self) -> String {
        match self {
            Obs::None => "None".into(),
            Obs::Some(s) => format!("Some({})", sched_brief(s)),
            Obs::Panic { msg, file, line } => format!("PANIC '{}' at {}:{}", msg, file, line),
        }
    }
}

thread_local! {
    static LAST_PANIC: RefCell<Option<(String, String, u32)>> = const { RefCell::new(None) };
    /// true only while this thread is inside serialize_schedule / deserialize_schedule
    static IN_CODEC: std::cell::Cell<bool> = const { std::cell::Cell::new(false) };
}

/// Replace the panic hook by one that prints nothing and remembers message + location.
pub fn install_quiet_hook() {
    std::panic::set_hook(Box::new(|info| {
        let msg = if let Some(s) = info.payload().downcast_ref::<&str>() {
            (*s).to_string()
        } else if let Some(s) = info.payload().downcast_ref::<String>() {
            s.clone()
        } else {
            "<non-string payload>".to_string()
        };
        let (file, line) = info
            .location()
            .map(|l| (l.file().to_string(), l.line()))
            .unwrap_or_else(|| ("?".into(), 0));
        if IN_CODEC.with(|c| c.get()) {
            LAST_PANIC.with(|p| *p.borrow_mut() = Some((msg, file, line)));
        } else {
            // a bug of the harness itself: never silent, never a verdict
            eprintln!("MACHINERY-ERROR: internal panic in vx-c16: '{}' at {}:{}", msg, file, line);
        }
    }));
}

fn take_panic() -> Obs {
    let (msg, file, line) = LAST_PANIC
        .with(|p| p.borrow_mut().take())
        .unwrap_or_else(|| ("<unknown>".into(), "?".into(), 0));
    Obs::Panic { msg, file, line }
}

pub fn observe(input: &str) -> Obs {
    IN_CODEC.with(|c| c.set(true));
    let r = std::panic::catch_unwind(|| deserialize_schedule(input));
    IN_CODEC.with(|c| c.set(false));
    match r {
        Ok(None) => Obs::None,
        Ok(Some(s)) => Obs::Some(s),
        Err(_) => take_panic(),
    }
}

pub fn encode(s: &Schedule) -> Result<String, Obs> {
    IN_CODEC.with(|c| c.set(true));
    let r = std::panic::catch_unwind(|| serialize_schedule(s));
    IN_CODEC.with(|c| c.set(false));
    match r {
        Ok(p) => Ok(p),
        Err(_) => Err(take_panic()),
    }
}

/// Stable name of a panic site, from the panic message and location (not from the input, and not
/// from line numbers, so that keys survive unrelated edits).  Anything unrecognised gets its own
/// key from file:line, so a new crash is never folded into a known one.
pub fn panic_site(msg: &str, file: &str, line: u32) -> String {
    let in_ser = file.ends_with("scheduler/serialization.rs");
    if in_ser && msg.starts_with("index out of bounds") {
        return "empty-input".into();
    }
    if in_ser && msg.contains("Option::unwrap()") {
        return "truncated-body/tag-bit".into();
    }
    if msg.starts_with("cannot load") {
        return if msg.ends_with("from a 0-bit region") {
            "width=0".into()
        } else {
            "width>64".into()
        };
    }
    if msg.starts_with("range ") && msg.contains("out of bounds") {
        return "truncated-body/id-bits".into();
    }
    if in_ser && msg.contains("attempt to add with overflow") {
        return "width-overflow".into();
    }
    if msg.contains("capacity overflow") {
        return "length-capacity-overflow".into();
    }
    let base = file.rsplit('/').next().unwrap_or(file);
    let short: String = msg.chars().take(40).collect();
    format!("other/{}:{}/{}", base, line, short)
}

#[derive(Clone, Copy, Debug, PartialEq, Eq)]
pub enum Outcome {
    None,
    SomeExpected,
    SomeOther,
    Panic,
}

pub struct Judgement {
    pub outcome: Outcome,
    /// (key, what) if the property is violated by this case
    pub violation: Option<(String, String)>,
    /// reference / expectation disagree although the implementation satisfied the expectation:
    /// the wire format is not the one the reference was written for (machinery error, no verdict)
    pub drift: Option<String>,
    pub refr: Ref,
}

fn show_input(s: &str) -> String {
    // escape_default yields ASCII only, so byte slicing is safe
    let e: String = s.escape_default().collect();
    if e.len() > 120 {
        format!("\"{}…\" ({} chars)", &e[..100], s.chars().count())
    } else {
        format!("\"{}\"", e)
    }
}

/// `verbose = false` skips building the description of a panic (the hot path on the unfixed tree:
/// millions of panics); callers re-judge verbosely the few cases they actually print.
pub fn judge(case: &Case, obs: &Obs, verbose: bool) -> Judgement {
    let refr = ref_decode(&case.input);
    let mut drift = None;
    if let Obs::Panic { msg, file, line } = obs {
        let site = panic_site(msg, file, *line);
        let key = format!("decode-panic/{}", site);
        if !verbose {
            return Judgement { outcome: Outcome::Panic, violation: Some((key, String::new())), drift, refr };
        }
        return Judgement {
            outcome: Outcome::Panic,
            violation: Some((
                key,
                format!(
                    "deserialize_schedule({}) panicked: '{}' at {}:{} (input class {}, reference reading {})",
                    show_input(&case.input),
                    msg,
                    file,
                    line,
                    case.kind.name(),
                    refr.describe()
                ),
            )),
            drift,
            refr,
        };
    }
    let got: Option<&Schedule> = match obs {
        Obs::Some(s) => Some(s),
        _ => None,
    };
    let (outcome, violation) = match &case.expect {
        Expect::Exactly(s) => match got {
            Some(t) if t == s => {
                if !matches!(&refr, Ref::Valid(x) if x == s) {
                    drift = Some(format!(
                        "round trip holds but the reference reads {} as {}",
                        show_input(&case.input),
                        refr.describe()
                    ));
                }
                (Outcome::SomeExpected, None)
            }
            Some(t) => (
                Outcome::SomeOther,
                Some((
                    format!("roundtrip-mismatch/{}", case.label),
                    format!(
                        "serialize({}) = {} parsed ({}) into a different schedule {}",
                        sched_brief(s),
                        show_input(&case.input),
                        case.label,
                        sched_brief(t)
                    ),
                )),
            ),
            None => (
                Outcome::None,
                Some((
                    format!("roundtrip-rejected/{}", case.label),
                    format!(
                        "serialize({}) = {} ({}) was rejected by deserialize_schedule",
                        sched_brief(s),
                        show_input(&case.input),
                        case.label
                    ),
                )),
            ),
        },
        Expect::NoneOr(s) => match got {
            None => (Outcome::None, None),
            Some(t) if t == s => (Outcome::SomeExpected, None),
            Some(t) => (
                Outcome::SomeOther,
                Some((
                    format!("reformatted-mismatch/{}", case.label),
                    format!(
                        "re-formatted ({}) encoding {} of {} parsed into a different schedule {}",
                        case.label,
                        show_input(&case.input),
                        sched_brief(s),
                        sched_brief(t)
                    ),
                )),
            ),
        },
        Expect::ByRef => match (&refr, got) {
            (_, None) => (Outcome::None, None),
            (Ref::Invalid(c), Some(t)) => (
                Outcome::SomeOther,
                Some((
                    format!("accepts-malformed/{}", c.name()),
                    format!(
                        "{} string {} ({}/{}) was decoded into {} instead of being rejected",
                        c.name(),
                        show_input(&case.input),
                        case.kind.name(),
                        case.label,
                        sched_brief(t)
                    ),
                )),
            ),
            (Ref::Valid(r), Some(t)) if r == t => (Outcome::SomeExpected, None),
            (Ref::Valid(r), Some(t)) => (
                Outcome::SomeOther,
                Some((
                    format!("wrong-decode/{}", case.kind.name()),
                    format!(
                        "{} ({}/{}) carries {} but was decoded into {}",
                        show_input(&case.input),
                        case.kind.name(),
                        case.label,
                        sched_brief(r),
                        sched_brief(t)
                    ),
                )),
            ),
            (Ref::Unspec(_), Some(_)) => (Outcome::SomeOther, None),
        },
    };
    if let (Expect::NoneOr(s), None) = (&case.expect, &violation) {
        if !matches!(&refr, Ref::Valid(x) if x == s) && drift.is_none() && matches!(outcome, Outcome::SomeExpected) {
            drift = Some(format!(
                "re-formatted encoding decodes fine but the reference reads {} as {}",
                show_input(&case.input),
                refr.describe()
            ));
        }
    }
    Judgement { outcome, violation, drift, refr }
}

/// Class index used for the per-reference-class counters: 0..5 invalid classes, 6 valid, 7 unspecified.
pub fn ref_index(r: &Ref) -> usize {
    match r {
        Ref::Invalid(c) => c.index(),
        Ref::Valid(_) => Class::COUNT,
        Ref::Unspec(_) => Class::COUNT + 1,
    }
}
pub fn ref_index_name(i: usize) -> &'static str {
    if i < Class::COUNT {
        Class::ALL[i].name()
    } else if i == Class::COUNT {
        "valid"
    } else {
        "unspecified"
    }
}
