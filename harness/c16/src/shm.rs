//! A small file-backed shared array of u64 slots.  A worker stores "which case am I decoding right
//! now" and its counters here with plain stores (no syscalls), so that when the decoder under test
//! takes the worker process down (allocation failure => abort) or hangs, the parent still knows the
//! exact input and everything counted so far.

use std::fs::OpenOptions;
use std::os::fd::AsRawFd;

pub struct Shm {
    ptr: *mut u64,
    n: usize,
}

impl Shm {
    pub fn open(path: &str, n: usize) -> Result<Shm, String> {
        let f = OpenOptions::new()
            .read(true)
            .write(true)
            .create(true)
            .truncate(false)
            .open(path)
            .map_err(|e| format!("open {}: {}", path, e))?;
        f.set_len((n * 8) as u64).map_err(|e| format!("set_len {}: {}", path, e))?;
        let p = unsafe {
            libc::mmap(
                std::ptr::null_mut(),
                n * 8,
                libc::PROT_READ | libc::PROT_WRITE,
                libc::MAP_SHARED,
                f.as_raw_fd(),
                0,
            )
        };
        if p == libc::MAP_FAILED {
            return Err(format!("mmap {} failed", path));
        }
        Ok(Shm { ptr: p as *mut u64, n })
    }
    #[inline]
    pub fn get(&self, i: usize) -> u64 {
        assert!(i < self.n);
        unsafe { std::ptr::read_volatile(self.ptr.add(i)) }
    }
    #[inline]
    pub fn set(&self, i: usize, v: u64) {
        assert!(i < self.n);
        unsafe { std::ptr::write_volatile(self.ptr.add(i), v) }
    }
    #[inline]
    pub fn add(&self, i: usize, d: u64) {
        self.set(i, self.get(i).wrapping_add(d));
    }
}

/// Read the slots of a (possibly dead) worker's file.
pub fn read_slots(path: &str, n: usize) -> Vec<u64> {
    let mut v = vec![0u64; n];
    if let Ok(b) = std::fs::read(path) {
        for (i, c) in b.chunks_exact(8).enumerate().take(n) {
            v[i] = u64::from_le_bytes(c.try_into().unwrap());
        }
    }
    v
}
