//! C16 — "Schedule strings round-trip exactly and malformed strings are rejected".
//!
//! Engine E5 (bounded-exhaustive codec enumerator) for
//! `shuttle_engine::scheduler::serialization::{serialize_schedule, deserialize_schedule}`.
//!
//!   check C16 quick|thorough     parent: shards the families over worker processes, aggregates
//!   check C16 --replay <file>    re-executes one recorded case in a child, prints the observation
//!   worker ...                   (hidden) enumerates one shard of one family, in-process decoding
//!   one                          (hidden) judges the single case given as JSON on stdin
//!
//! Workers decode under `catch_unwind` with a silent panic hook (message + location are recorded and
//! turned into a per-panic-site finding key).  What `catch_unwind` cannot contain (allocation failure
//! => abort, a hang) is contained by process boundaries: a worker is a supervisor that fork()s the
//! enumerating child; the child keeps "the case I am inside" and all counters in a file-backed shared
//! array (shm.rs).  When the child dies inside the codec the supervisor re-creates exactly that input
//! from (family, item, case) with the same generator, prints it as a finding and forks a child that
//! resumes right after it; a death outside the codec is a machinery error.  The parent watches the
//! shared array for a call that makes no progress for 30 s (finding `decode-hang/...`) and enforces
//! the wall cap (reported as a cap, `exhaustive:false`).  Workers run with RLIMIT_AS = 2 GiB so that
//! "does a 2^27-element pre-allocation succeed" does not depend on the machine.

mod eval;
mod gen;
mod refdec;
mod shm;

use eval::{judge, observe, Case, Kind, Obs, Outcome};
use gen::{run_family, Family, Sink};
use refdec::Class;
use serde_json::{json, Map, Value};
use shuttle_engine::scheduler::Schedule;
use std::collections::{BTreeMap, HashMap, VecDeque};
use std::io::{Read, Write};
use std::os::unix::process::ExitStatusExt;
use std::process::{Command, Stdio};
use std::sync::{Arc, Mutex};
use std::time::{Duration, Instant};
use vx::common::{CheckCtx, CheckResult, Tier};

// ---- shared slots ---------------------------------------------------------------------------
const S_ITEM: usize = 0;
const S_SUB: usize = 1;
const S_PHASE: usize = 2; // 0 = worker's own code, 1 = inside serialize_schedule, 2 = inside deserialize_schedule
const S_ITEMS_DONE: usize = 3;
const S_ENCODES: usize = 4;
const S_MULTILINE: usize = 5;
const S_EXACT76: usize = 6;
const S_MAXLINES: usize = 7;
const S_FINDINGS: usize = 8;
const S_MACH: usize = 9;
const S_PAD_ONLY: usize = 10;
const S_PAD_ONLY_SOME: usize = 11;
const S_NONTRIVIAL: usize = 12;
const S_DEATHS: usize = 13;
const S_KIND: usize = 16; // Kind::COUNT * 6: decodes, none, some_expected, some_other, panic, violations
const S_REF: usize = 96; // 8 reference classes * 2: decodes, none
const S_KEYTAB: usize = 112; // KEY_ENTRIES * 2: key hash, violations counted under that key
const KEY_ENTRIES: usize = 24;
const SLOTS: usize = 160;

const AS_LIMIT: u64 = 2 << 30;
const STALL: Duration = Duration::from_secs(30);
const MAX_DEATHS_PER_SHARD: u64 = 5000;
const EMIT_PER_KEY: u64 = 6;

fn limit_address_space() {
    let lim = libc::rlimit { rlim_cur: AS_LIMIT, rlim_max: AS_LIMIT };
    let nocore = libc::rlimit { rlim_cur: 0, rlim_max: 0 };
    unsafe {
        libc::setrlimit(libc::RLIMIT_AS, &lim);
        libc::setrlimit(libc::RLIMIT_CORE, &nocore);
    }
}

// ---- worker ---------------------------------------------------------------------------------
// A worker process is a *supervisor* that forks the enumerating child.  The shared array survives the
// child, so when the decoder kills the child (allocation failure => abort) the supervisor knows the
// exact case, re-creates the input with the same generator, prints the finding and forks a new child
// that resumes right after that case.  fork() instead of exec keeps a death at ~1 ms.

/// Per-key violation counts live in the shared array too (a table of (hash, count) pairs), so they
/// survive the death of the child that counted them.
fn key_hash(key: &str) -> u64 {
    let mut h: u64 = 0xcbf29ce484222325;
    for b in key.bytes() {
        h ^= b as u64;
        h = h.wrapping_mul(0x100000001b3);
    }
    h | 2 // never 0 (= free entry) or 1 (= overflow entry)
}

/// Count one violation under `key`; returns (count so far, true if this call created the entry).
fn key_count(shm: &shm::Shm, key: &str) -> (u64, bool) {
    let h = key_hash(key);
    for e in 0..KEY_ENTRIES {
        let slot = S_KEYTAB + 2 * e;
        let cur = shm.get(slot);
        if cur == h {
            shm.add(slot + 1, 1);
            return (shm.get(slot + 1), false);
        }
        if cur == 0 {
            if e == KEY_ENTRIES - 1 {
                shm.set(slot, 1); // overflow entry: "(further keys)"
                shm.add(slot + 1, 1);
                return (shm.get(slot + 1), false);
            }
            shm.set(slot, h);
            shm.set(slot + 1, 1);
            return (1, true);
        }
        if cur == 1 {
            shm.add(slot + 1, 1);
            return (shm.get(slot + 1), false);
        }
    }
    (u64::MAX, false)
}

fn announce_key(out: &mut std::io::Stdout, key: &str) {
    let _ = writeln!(out, "{}", json!({"t": "key", "key": key, "hash": key_hash(key).to_string()}));
}

struct WorkerSink {
    shard: u64,
    nshards: u64,
    start: (u64, u64),
    next_idx: u64,
    cur: u64,
    sub: u64,
    active: bool,
    fresh: bool,
    shm: shm::Shm,
    out: std::io::Stdout,
    family: Family,
    hashes: Vec<u64>,
    hash_path: String,
    sampled: [u8; Kind::COUNT],
    sampled_pad: bool,
}

impl WorkerSink {
    /// `what` is built only for the first few cases of a key
    fn emit_finding(&mut self, key: &str, sub: u64, case: &Case, what: &dyn Fn() -> String) {
        self.shm.add(S_FINDINGS, 1);
        let (n, created) = key_count(&self.shm, key);
        if created {
            announce_key(&mut self.out, key);
        }
        if n <= EMIT_PER_KEY {
            let line = json!({"t": "finding", "key": key, "what": what(),
                "replay": {"family": self.family.name(), "item": self.cur, "sub": sub, "case": case.to_json()}});
            let _ = writeln!(self.out, "{}", line);
            let _ = self.out.flush();
        }
    }
    fn flush_hashes(&mut self) {
        if self.hashes.is_empty() {
            return;
        }
        if let Ok(mut f) = std::fs::OpenOptions::new().create(true).append(true).open(&self.hash_path) {
            let mut b = Vec::with_capacity(self.hashes.len() * 8);
            for h in &self.hashes {
                b.extend_from_slice(&h.to_le_bytes());
            }
            let _ = f.write_all(&b);
        }
        self.hashes.clear();
    }
    fn sample(&mut self, tag: &str, case: &Case, obs: &Obs, refd: &str) {
        let shown: String = case.input.chars().take(200).collect();
        let line = json!({"t": "sample", "tag": tag, "kind": case.kind.name(), "label": case.label,
            "input": shown, "input_chars": case.input.chars().count(),
            "reference": refd, "observed": obs.describe()});
        let _ = writeln!(self.out, "{}", line);
    }
}

impl Sink for WorkerSink {
    fn begin(&mut self) -> bool {
        self.cur = self.next_idx;
        self.next_idx += 1;
        self.sub = 0;
        self.active = self.cur % self.nshards == self.shard && self.cur >= self.start.0;
        self.fresh = !(self.cur == self.start.0 && self.start.1 > 0);
        self.active
    }
    fn end(&mut self) {
        if self.active {
            self.shm.add(S_ITEMS_DONE, 1);
            self.active = false;
        }
    }
    fn encode(&mut self, s: &Schedule) -> Option<String> {
        self.shm.set(S_ITEM, self.cur);
        self.shm.set(S_SUB, 0);
        self.shm.set(S_PHASE, 1);
        let r = eval::encode(s);
        self.shm.set(S_PHASE, 0);
        match r {
            Ok(p) => Some(p),
            Err(Obs::Panic { msg, file, line }) => {
                if self.fresh {
                    let key = format!("encode-panic/{}", eval::panic_site(&msg, &file, line));
                    let c = Case { kind: Kind::Strict, label: "encode", input: String::new(), expect: eval::Expect::Exactly(s.clone()) };
                    self.emit_finding(&key, 0, &c, &|| {
                        format!("serialize_schedule({}) panicked: '{}' at {}:{}", gen::sched_brief(s), msg, file, line)
                    });
                }
                None
            }
            Err(_) => None,
        }
    }
    fn note_roundtrip(&mut self, s: &Schedule, printed: &str) {
        if !self.fresh {
            return;
        }
        self.shm.add(S_ENCODES, 1);
        let lines = printed.split('\n').count() as u64;
        if lines > 1 {
            self.shm.add(S_MULTILINE, 1);
        }
        if lines > self.shm.get(S_MAXLINES) {
            self.shm.set(S_MAXLINES, lines);
        }
        let digits = printed.len() as u64 - (lines - 1);
        if digits % 76 == 0 {
            self.shm.add(S_EXACT76, 1);
        }
        if gen::nontrivial(s, printed) {
            self.shm.add(S_NONTRIVIAL, 1);
            self.hashes.push(gen::hash_sched(s));
            if self.hashes.len() >= 1 << 16 {
                self.flush_hashes();
            }
        }
    }
    fn case(&mut self, c: Case) -> Option<(Outcome, refdec::Ref)> {
        let sub = self.sub;
        self.sub += 1;
        if self.cur == self.start.0 && sub < self.start.1 {
            return None;
        }
        self.shm.set(S_ITEM, self.cur);
        self.shm.set(S_SUB, sub);
        self.shm.set(S_PHASE, 2);
        let obs = observe(&c.input);
        self.shm.set(S_PHASE, 0);
        let j = judge(&c, &obs, false);
        let k = S_KIND + (c.kind as usize) * 6;
        self.shm.add(k, 1);
        self.shm.add(
            k + match j.outcome {
                Outcome::None => 1,
                Outcome::SomeExpected => 2,
                Outcome::SomeOther => 3,
                Outcome::Panic => 4,
            },
            1,
        );
        let ri = eval::ref_index(&j.refr);
        self.shm.add(S_REF + ri * 2, 1);
        if j.outcome == Outcome::None {
            self.shm.add(S_REF + ri * 2 + 1, 1);
        }
        if let Some(d) = &j.drift {
            self.machinery(format!("format drift: {}", d));
        }
        if self.sampled[c.kind as usize] < 1 && (c.kind != Kind::Strict || c.input.contains('\n')) {
            self.sampled[c.kind as usize] += 1;
            self.sample("first-of-kind", &c, &obs, &j.refr.describe());
        }
        if let Some((key, _)) = &j.violation {
            self.shm.add(k + 5, 1);
            self.emit_finding(key, sub, &c, &|| judge(&c, &obs, true).violation.map(|v| v.1).unwrap_or_default());
        }
        if c.kind == Kind::Prefix && !self.sampled_pad && j.outcome == Outcome::SomeExpected {
            self.sampled_pad = true;
            self.sample("padding-only-truncation", &c, &obs, &j.refr.describe());
        }
        Some((j.outcome, j.refr))
    }
    fn note_padding_only(&mut self, decoded_same: bool) {
        self.shm.add(S_PAD_ONLY, 1);
        if decoded_same {
            self.shm.add(S_PAD_ONLY_SOME, 1);
        }
    }
    /// Only reference-vs-implementation disagreements arrive here ("format drift", "reference
    /// self-check"); the parent drops them when the codec itself fails to round-trip.
    fn machinery(&mut self, msg: String) {
        self.shm.add(S_MACH, 1);
        if self.shm.get(S_MACH) <= 5 {
            let _ = writeln!(self.out, "{}", json!({"t": "drift", "msg": msg}));
        }
    }
}

fn read_from(path: &str, offset: u64) -> String {
    use std::io::{Seek, SeekFrom};
    let mut s = String::new();
    if let Ok(mut f) = std::fs::File::open(path) {
        let _ = f.seek(SeekFrom::Start(offset));
        let _ = f.read_to_string(&mut s);
    }
    s
}

/// Description of a death inside the codec, shared by the supervisor (child died) and the parent
/// (child hung and was killed).  Returns (key, what, replay).
fn death_finding(family: Family, tier: Tier, item: u64, sub: u64, phase: u64, how: &str, key_tail: &str, stderr: &str) -> Option<(String, String, Value)> {
    let err_line = stderr
        .lines()
        .find(|l| l.contains("memory allocation of"))
        .or(stderr.lines().next())
        .unwrap_or("")
        .to_string();
    if phase == 2 {
        let (case, _) = capture_case(family, tier, item, sub, true);
        let c = case?;
        Some((
            format!("decode-{}", key_tail),
            format!(
                "deserialize_schedule(\"{}\") took the process down ({}; stderr: {}) — input class {}, reference reading {} (address space limited to 2 GiB)",
                c.input.escape_default().take(120).collect::<String>(),
                how,
                err_line,
                c.kind.name(),
                refdec::ref_decode(&c.input).describe()
            ),
            json!({"family": family.name(), "item": item, "sub": sub, "case": c.to_json()}),
        ))
    } else {
        // do not run the encoder again here: it is what killed the child
        let (_, sched) = capture_case(family, tier, item, 0, false);
        let s = sched?;
        let c = Case { kind: Kind::Strict, label: "encode", input: String::new(), expect: eval::Expect::Exactly(s.clone()) };
        Some((
            format!("encode-{}", key_tail),
            format!("serialize_schedule({}) took the process down ({}; stderr: {})", gen::sched_brief(&s), how, err_line),
            json!({"family": family.name(), "item": item, "sub": 0, "case": c.to_json()}),
        ))
    }
}

fn worker_main(a: &[String]) -> ! {
    // worker <tier> <family> <shard> <nshards> <start_item> <start_sub> <shm> <hashfile> <stderr file>
    if a.len() < 9 {
        eprintln!("worker: bad arguments");
        std::process::exit(3);
    }
    let tier = if a[0] == "thorough" { Tier::Thorough } else { Tier::Quick };
    let family = Family::from_name(&a[1]).unwrap_or_else(|| std::process::exit(3));
    let num = |s: &String| s.parse::<u64>().unwrap_or_else(|_| std::process::exit(3));
    let (shard, nshards) = (num(&a[2]), num(&a[3]).max(1));
    let mut start = (num(&a[4]), num(&a[5]));
    let sup = match shm::Shm::open(&a[6], SLOTS) {
        Ok(s) => s,
        Err(e) => {
            eprintln!("worker: {}", e);
            std::process::exit(3)
        }
    };
    let err_path = a[8].clone();
    limit_address_space();
    eval::install_quiet_hook();
    let mut out = std::io::stdout();
    loop {
        let _ = out.flush();
        let err_off = std::fs::metadata(&err_path).map(|m| m.len()).unwrap_or(0);
        let pid = unsafe { libc::fork() };
        if pid < 0 {
            eprintln!("worker: fork failed");
            std::process::exit(3);
        }
        if pid == 0 {
            // ---- enumerating child
            let shm = match shm::Shm::open(&a[6], SLOTS) {
                Ok(s) => s,
                Err(_) => std::process::exit(3),
            };
            let mut sink = WorkerSink {
                shard,
                nshards,
                start,
                next_idx: 0,
                cur: 0,
                sub: 0,
                active: false,
                fresh: true,
                shm,
                out: std::io::stdout(),
                family,
                hashes: Vec::new(),
                hash_path: a[7].clone(),
                sampled: [if start == (0, 0) { 0 } else { 1 }; Kind::COUNT],
                sampled_pad: start != (0, 0),
            };
            run_family(family, tier, &mut sink);
            sink.flush_hashes();
            let _ = writeln!(sink.out, "{}", json!({"t": "done", "items_total": sink.next_idx}));
            let _ = sink.out.flush();
            std::process::exit(0);
        }
        let mut status: libc::c_int = 0;
        let w = unsafe { libc::waitpid(pid, &mut status, 0) };
        if w != pid {
            eprintln!("worker: waitpid failed");
            std::process::exit(3);
        }
        if libc::WIFEXITED(status) && libc::WEXITSTATUS(status) == 0 {
            std::process::exit(0);
        }
        // ---- the child died.  Only a death inside the code under test is a verdict.
        let phase = sup.get(S_PHASE);
        let (item, sub) = (sup.get(S_ITEM), sup.get(S_SUB));
        let errs = read_from(&err_path, err_off);
        let how = if libc::WIFSIGNALED(status) {
            format!("signal {}", libc::WTERMSIG(status))
        } else {
            format!("exit code {}", libc::WEXITSTATUS(status))
        };
        if phase != 1 && phase != 2 {
            let _ = writeln!(
                out,
                "{}",
                json!({"t": "machinery", "msg": format!("enumerating child of {}/{} died ({}) outside the code under test near item {}: {}",
                    family.name(), shard, how, item, errs.lines().take(2).collect::<Vec<_>>().join(" | "))})
            );
            let _ = out.flush();
            std::process::exit(4);
        }
        sup.set(S_PHASE, 0);
        let key_tail = if libc::WIFSIGNALED(status) && libc::WTERMSIG(status) == libc::SIGABRT {
            if errs.contains("memory allocation of") {
                "abort/alloc-failure".to_string()
            } else {
                "abort/other".to_string()
            }
        } else if libc::WIFSIGNALED(status) {
            format!("crash/signal-{}", libc::WTERMSIG(status))
        } else {
            format!("crash/exit-{}", libc::WEXITSTATUS(status))
        };
        match death_finding(family, tier, item, sub, phase, &how, &key_tail, &errs) {
            Some((key, what, replay)) => {
                sup.add(S_DEATHS, 1);
                let (n, created) = key_count(&sup, &key);
                if created {
                    announce_key(&mut out, &key);
                }
                if n <= EMIT_PER_KEY {
                    let _ = writeln!(out, "{}", json!({"t": "finding", "key": key, "what": what, "replay": replay}));
                }
            }
            None => {
                let _ = writeln!(
                    out,
                    "{}",
                    json!({"t": "machinery", "msg": format!("cannot re-create case {}/{}/{} after a death", family.name(), item, sub)})
                );
                let _ = out.flush();
                std::process::exit(4);
            }
        }
        if sup.get(S_DEATHS) >= MAX_DEATHS_PER_SHARD {
            let _ = writeln!(out, "{}", json!({"t": "cap", "msg": format!("{} deaths inside the codec in {}/{}: shard abandoned at item {}", sup.get(S_DEATHS), family.name(), shard, item)}));
            let _ = out.flush();
            std::process::exit(5);
        }
        start = if phase == 2 {
            (item, sub + 1)
        } else {
            sup.add(S_ITEMS_DONE, 1); // the item whose encoding killed the child is finished
            (item + 1, 0)
        };
    }
}

// ---- re-creating one case from its coordinates ------------------------------------------------
struct CaptureSink {
    item: u64,
    sub: u64,
    next_idx: u64,
    cur_sub: u64,
    active: bool,
    out: Option<Case>,
    sched: Option<Schedule>,
    run_encoder: bool,
}
impl Sink for CaptureSink {
    fn begin(&mut self) -> bool {
        self.active = self.next_idx == self.item;
        self.next_idx += 1;
        self.cur_sub = 0;
        self.active
    }
    fn end(&mut self) {
        self.active = false;
    }
    fn encode(&mut self, s: &Schedule) -> Option<String> {
        self.sched = Some(s.clone());
        if self.run_encoder {
            eval::encode(s).ok()
        } else {
            None
        }
    }
    fn note_roundtrip(&mut self, _: &Schedule, _: &str) {}
    fn case(&mut self, c: Case) -> Option<(Outcome, refdec::Ref)> {
        if self.active && self.cur_sub == self.sub {
            self.out = Some(c);
        }
        self.cur_sub += 1;
        None
    }
    fn note_padding_only(&mut self, _: bool) {}
    fn machinery(&mut self, _: String) {}
}

fn capture_case(f: Family, tier: Tier, item: u64, sub: u64, run_encoder: bool) -> (Option<Case>, Option<Schedule>) {
    let mut s = CaptureSink { item, sub, next_idx: 0, cur_sub: 0, active: false, out: None, sched: None, run_encoder };
    run_family(f, tier, &mut s);
    (s.out, s.sched)
}

// ---- parent -----------------------------------------------------------------------------------
#[derive(Clone)]
struct FindingRec {
    key: String,
    what: String,
    replay: Value,
    input_len: usize,
}

struct JobResult {
    family: Family,
    shard: u64,
    slots: Vec<u64>,
    findings: Vec<FindingRec>,
    key_names: HashMap<u64, String>,
    key_counts: BTreeMap<String, u64>,
    samples: Vec<Value>,
    machinery: Vec<String>,
    drift: Vec<String>,
    completed: bool,
    cap: Option<String>,
    items_total: u64,
    hash_path: String,
    wall_s: f64,
}

fn kill_group(pid: u32) {
    unsafe {
        libc::kill(-(pid as i32), libc::SIGKILL);
    }
}

fn run_job(exe: &std::path::Path, scratch: &str, tier: Tier, family: Family, shard: u64, nshards: u64, deadline: Instant) -> JobResult {
    use std::os::unix::process::CommandExt;
    let base = format!("{}/{}-{}", scratch, family.name(), shard);
    let shm_path = format!("{}.shm", base);
    let err_path = format!("{}.err", base);
    let hash_path = format!("{}.hashes", base);
    let _ = std::fs::write(&shm_path, vec![0u8; SLOTS * 8]);
    let mut r = JobResult {
        family,
        shard,
        slots: vec![0; SLOTS],
        findings: vec![],
        key_names: HashMap::new(),
        key_counts: BTreeMap::new(),
        samples: vec![],
        machinery: vec![],
        drift: vec![],
        completed: false,
        cap: None,
        items_total: 0,
        hash_path: hash_path.clone(),
        wall_s: 0.0,
    };
    let t0 = Instant::now();
    let mut start = (0u64, 0u64);
    let mut hangs = 0u64;
    loop {
        let errf = match std::fs::File::create(&err_path) {
            Ok(f) => f,
            Err(e) => {
                r.machinery.push(format!("cannot create {}: {}", err_path, e));
                break;
            }
        };
        let child = Command::new(exe)
            .arg("worker")
            .arg(tier.name())
            .arg(family.name())
            .arg(shard.to_string())
            .arg(nshards.to_string())
            .arg(start.0.to_string())
            .arg(start.1.to_string())
            .arg(&shm_path)
            .arg(&hash_path)
            .arg(&err_path)
            .env("RUST_BACKTRACE", "0")
            .process_group(0)
            .stdin(Stdio::null())
            .stdout(Stdio::piped())
            .stderr(Stdio::from(errf))
            .spawn();
        let mut child = match child {
            Ok(c) => c,
            Err(e) => {
                r.machinery.push(format!("cannot spawn worker {}/{}: {}", family.name(), shard, e));
                break;
            }
        };
        let mut so = child.stdout.take().unwrap();
        let reader = std::thread::spawn(move || {
            let mut s = String::new();
            let _ = so.read_to_string(&mut s);
            s
        });
        // wait, watching for a stalled call into the codec and for the wall cap
        let mut last = (u64::MAX, u64::MAX, 0u64);
        let mut last_change = Instant::now();
        let mut killed: Option<&'static str> = None;
        let mut polls = 0u32;
        let status = loop {
            match child.try_wait() {
                Ok(Some(st)) => break Some(st),
                Ok(None) => {}
                Err(_) => break None,
            }
            polls += 1;
            std::thread::sleep(Duration::from_millis(if polls < 100 { 2 } else { 25 }));
            if polls % 8 != 0 {
                continue;
            }
            let sl = shm::read_slots(&shm_path, SLOTS);
            let decodes: u64 = (0..Kind::COUNT).map(|k| sl[S_KIND + k * 6]).sum();
            let now = (sl[S_ITEM], sl[S_SUB], decodes + sl[S_ENCODES] + sl[S_DEATHS]);
            if now != last {
                last = now;
                last_change = Instant::now();
            } else if sl[S_PHASE] != 0 && last_change.elapsed() > STALL {
                killed = Some("stall");
                kill_group(child.id());
                break child.wait().ok();
            }
            if Instant::now() > deadline {
                killed = Some("wall-cap");
                kill_group(child.id());
                break child.wait().ok();
            }
        };
        kill_group(child.id()); // nothing of the group may outlive its supervisor
        let out = reader.join().unwrap_or_default();
        let mut done = false;
        for line in out.lines() {
            let v: Value = match serde_json::from_str(line) {
                Ok(v) => v,
                Err(_) => {
                    r.machinery.push(format!("worker {}/{} printed an unparsable line: {}", family.name(), shard, line));
                    continue;
                }
            };
            match v["t"].as_str() {
                Some("finding") => {
                    let input_len = v["replay"]["case"]["input"].as_str().map(|s| s.len()).unwrap_or(0);
                    r.findings.push(FindingRec {
                        key: v["key"].as_str().unwrap_or("?").to_string(),
                        what: v["what"].as_str().unwrap_or("?").to_string(),
                        replay: v["replay"].clone(),
                        input_len,
                    });
                }
                Some("key") => {
                    if let Some(h) = v["hash"].as_str().and_then(|s| s.parse::<u64>().ok()) {
                        r.key_names.insert(h, v["key"].as_str().unwrap_or("?").to_string());
                    }
                }
                Some("sample") => r.samples.push(v.clone()),
                Some("machinery") => r.machinery.push(v["msg"].as_str().unwrap_or("?").to_string()),
                Some("drift") => r.drift.push(v["msg"].as_str().unwrap_or("?").to_string()),
                Some("cap") => r.cap = Some(v["msg"].as_str().unwrap_or("?").to_string()),
                Some("done") => {
                    done = true;
                    r.items_total = v["items_total"].as_u64().unwrap_or(0);
                }
                _ => {}
            }
        }
        let sl = shm::read_slots(&shm_path, SLOTS);
        if killed == Some("wall-cap") {
            r.cap = Some(format!("wall cap hit in {}/{} at item {}", family.name(), shard, sl[S_ITEM]));
            break;
        }
        if killed == Some("stall") {
            // a call into the codec that made no progress for 30 s: a verdict about that input
            let (item, sub, phase) = (sl[S_ITEM], sl[S_SUB], sl[S_PHASE]);
            match death_finding(family, tier, item, sub, phase, "no progress for 30 s, killed", "hang/no-progress-30s", "") {
                Some((key, what, replay)) => {
                    *r.key_counts.entry(key.clone()).or_insert(0) += 1;
                    let input_len = replay["case"]["input"].as_str().map(|s| s.len()).unwrap_or(0);
                    r.findings.push(FindingRec { key, what, replay, input_len });
                }
                None => {
                    r.machinery.push(format!("cannot re-create case {}/{}/{} after a hang", family.name(), item, sub));
                    break;
                }
            }
            hangs += 1;
            if hangs >= 5 {
                r.cap = Some(format!("{} hangs in {}/{}: shard abandoned at item {}", hangs, family.name(), shard, item));
                break;
            }
            start = if phase == 2 { (item, sub + 1) } else { (item + 1, 0) };
            continue;
        }
        match status {
            Some(st) if st.success() && done => r.completed = true,
            Some(st) if st.code() == Some(5) && r.cap.is_some() => {}
            Some(st) => {
                if r.machinery.is_empty() {
                    r.machinery.push(format!(
                        "worker {}/{} ended abnormally ({:?}, signal {:?}) near item {}: {}",
                        family.name(),
                        shard,
                        st.code(),
                        st.signal(),
                        sl[S_ITEM],
                        read_from(&err_path, 0).lines().take(2).collect::<Vec<_>>().join(" | ")
                    ));
                }
            }
            None => r.machinery.push(format!("lost worker {}/{}", family.name(), shard)),
        }
        break;
    }
    r.slots = shm::read_slots(&shm_path, SLOTS);
    for e in 0..KEY_ENTRIES {
        let (h, n) = (r.slots[S_KEYTAB + 2 * e], r.slots[S_KEYTAB + 2 * e + 1]);
        if h == 0 {
            break;
        }
        let name = if h == 1 { "(further keys)".to_string() } else { r.key_names.get(&h).cloned().unwrap_or_else(|| format!("(key #{})", h)) };
        *r.key_counts.entry(name).or_insert(0) += n;
    }
    r.wall_s = t0.elapsed().as_secs_f64();
    r
}

fn check_main(id: &str, tier: Tier) -> ! {
    let ctx = CheckCtx::new(id, tier);
    let mut res = CheckResult::new("exploration");
    eval::install_quiet_hook(); // the parent re-creates cases (calls the encoder) after worker deaths
    let exe = match Ok::<std::path::PathBuf, std::io::Error>(std::path::PathBuf::from("/proc/self/exe")) {
        Ok(e) => e,
        Err(e) => {
            res.machinery_errors.push(format!("current_exe: {}", e));
            vx::common::finish(&ctx, res)
        }
    };
    let scratch = format!("/tmp/vx-c16-{}", std::process::id());
    let _ = std::fs::remove_dir_all(&scratch);
    if let Err(e) = std::fs::create_dir_all(&scratch) {
        res.machinery_errors.push(format!("cannot create {}: {}", scratch, e));
        vx::common::finish(&ctx, res)
    }
    let wall_cap = if tier.is_thorough() { Duration::from_secs(22 * 60) } else { Duration::from_secs(40) };
    let deadline = ctx.start + wall_cap;

    // development aid: VX_C16_ONLY=<family> runs one family (the run is then reported as not exhaustive)
    let only = std::env::var("VX_C16_ONLY").ok().and_then(|s| Family::from_name(&s));
    let results: Arc<Mutex<Vec<JobResult>>> = Arc::new(Mutex::new(Vec::new()));
    let cores = std::thread::available_parallelism().map(|n| n.get()).unwrap_or(4).clamp(1, 16);
    let mut njobs = 0usize;
    // Two phases.  First the families in which the decoder kills workers (and the tiny ones): their
    // shards are latency-bound (fork / die / re-create / fork), so they run all at once and before
    // the CPU-bound families, which would otherwise starve them.  Then the CPU-bound families, one
    // shard per core.
    for phase in 0..2 {
        let mut jobs: VecDeque<(Family, u64, u64)> = VecDeque::new();
        for f in Family::ALL {
            if only.is_some() && only != Some(f) {
                continue;
            }
            let cpu_bound = matches!(f, Family::Seq3 | Family::Long | Family::Boundary);
            if cpu_bound != (phase == 1) {
                continue;
            }
            let n = f.shards(tier);
            for i in 0..n {
                // VERIF_SEED only rotates the order in which the shards of a family are started
                jobs.push_back((f, (i + ctx.seed) % n, n));
            }
        }
        njobs += jobs.len();
        let par = if phase == 0 { jobs.len().clamp(1, 40) } else { cores };
        let queue = Arc::new(Mutex::new(jobs));
        let mut threads = Vec::new();
        for _ in 0..par {
            let (queue, results, exe, scratch) = (queue.clone(), results.clone(), exe.clone(), scratch.clone());
            threads.push(std::thread::spawn(move || loop {
                let job = queue.lock().unwrap().pop_front();
                match job {
                    Some((f, shard, n)) => {
                        let r = run_job(&exe, &scratch, tier, f, shard, n, deadline);
                        results.lock().unwrap().push(r);
                    }
                    None => break,
                }
            }));
        }
        for t in threads {
            let _ = t.join();
        }
    }
    let mut results = std::mem::take(&mut *results.lock().unwrap());
    results.sort_by_key(|r| (Family::ALL.iter().position(|f| *f == r.family).unwrap_or(99), r.shard));
    if results.len() != njobs {
        res.machinery_errors.push(format!("{} of {} shard jobs reported", results.len(), njobs));
    }

    // ---- aggregate
    let mut total = vec![0u64; SLOTS];
    let mut fam_cov = Map::new();
    let mut exhaustive = only.is_none();
    let mut caps: Vec<String> = Vec::new();
    let mut crashes = 0u64;
    let mut all_findings: Vec<FindingRec> = Vec::new();
    let mut key_counts: BTreeMap<String, u64> = BTreeMap::new();
    let mut samples: Vec<Value> = Vec::new();
    let mut hashes: Vec<u64> = Vec::new();
    for f in Family::ALL {
        if only.is_some() && only != Some(f) {
            continue;
        }
        let rs: Vec<&JobResult> = results.iter().filter(|r| r.family == f).collect();
        let mut items_done = 0u64;
        let mut decodes = 0u64;
        let mut totals: Vec<u64> = Vec::new();
        for r in &rs {
            items_done += r.slots[S_ITEMS_DONE];
            decodes += (0..Kind::COUNT).map(|k| r.slots[S_KIND + k * 6]).sum::<u64>();
            if r.completed {
                totals.push(r.items_total);
            }
        }
        totals.dedup();
        let complete = rs.iter().all(|r| r.completed);
        if complete {
            if totals.len() != 1 || totals[0] != items_done {
                res.machinery_errors.push(format!(
                    "family {}: shards disagree on the enumeration ({:?} items generated, {} evaluated)",
                    f.name(),
                    totals,
                    items_done
                ));
            }
        } else {
            exhaustive = false;
        }
        fam_cov.insert(
            f.name().into(),
            json!({"items": items_done, "decodes": decodes, "shards": rs.len(), "complete": complete,
                   "slowest_shard_wall_s": (rs.iter().map(|r| r.wall_s).fold(0.0, f64::max) * 10.0).round() / 10.0,
                   "worker_deaths": rs.iter().map(|r| r.slots[S_DEATHS]).sum::<u64>()}),
        );
    }
    for r in &results {
        for i in 0..SLOTS {
            if i == S_MAXLINES {
                total[i] = total[i].max(r.slots[i]);
            } else if i > S_PHASE && i < S_KEYTAB {
                total[i] += r.slots[i];
            }
        }
        if let Some(c) = &r.cap {
            caps.push(c.clone());
            exhaustive = false;
        }
        crashes += r.slots[S_DEATHS];
        all_findings.extend(r.findings.iter().cloned());
        for (k, n) in &r.key_counts {
            *key_counts.entry(k.clone()).or_insert(0) += n;
        }
        for m in &r.machinery {
            if res.machinery_errors.len() < 10 {
                res.machinery_errors.push(m.clone());
            }
        }
        if let Ok(b) = std::fs::read(&r.hash_path) {
            hashes.extend(b.chunks_exact(8).map(|c| u64::from_le_bytes(c.try_into().unwrap())));
        }
    }
    // Disagreement between the reference reading and an implementation that round-trips: the wire
    // format is not the one the reference was written for => no verdict (machinery error).  If the
    // codec itself fails to round-trip, that failure is the verdict and the disagreement its echo.
    let roundtrip_broken = key_counts.keys().any(|k| k.starts_with("roundtrip-") || k.starts_with("encode-"));
    if total[S_MACH] > 0 {
        if roundtrip_broken {
            res.cov("reference_disagreements_explained_by_roundtrip_findings", total[S_MACH]);
        } else {
            for r in &results {
                for m in &r.drift {
                    if res.machinery_errors.len() < 10 {
                        res.machinery_errors.push(m.clone());
                    }
                }
            }
            res.machinery_errors.push(format!("{} reference-vs-implementation disagreements in total", total[S_MACH]));
        }
    }
    hashes.sort_unstable();
    hashes.dedup();
    // samples: first of every kind, in a fixed order, then padding-only truncation
    for tag in ["padding-only-truncation", "first-of-kind"] {
        for k in [Kind::Strict, Kind::Prefix, Kind::LengthField, Kind::WidthField, Kind::HeaderSub, Kind::Magic, Kind::Fixed, Kind::Lenient] {
            if let Some(s) = results.iter().flat_map(|r| r.samples.iter()).find(|s| s["tag"] == tag && s["kind"] == k.name()) {
                samples.push(s.clone());
            }
        }
    }
    let evaluations: u64 = (0..Kind::COUNT).map(|k| total[S_KIND + k * 6]).sum();
    let mut kinds = Map::new();
    for k in Kind::ALL {
        let b = S_KIND + (k as usize) * 6;
        kinds.insert(
            k.name().into(),
            json!({"decodes": total[b], "none": total[b + 1], "some_expected": total[b + 2], "some_other": total[b + 3],
                   "panic": total[b + 4], "violations": total[b + 5]}),
        );
    }
    let mut refc = Map::new();
    for i in 0..Class::COUNT + 2 {
        refc.insert(
            eval::ref_index_name(i).into(),
            json!({"decodes": total[S_REF + 2 * i], "returned_none": total[S_REF + 2 * i + 1]}),
        );
    }
    let b = gen::bounds(tier);
    res.cov("evaluations", evaluations);
    res.cov("distinct_nontrivial", hashes.len() as u64);
    res.cov(
        "rule",
        "evaluations = calls of deserialize_schedule made by this run (each under catch_unwind in a worker process). \
         distinct_nontrivial = distinct Schedule values (64-bit FNV of seed+steps, de-duplicated across all shards) that were \
         encoded and strictly round-tripped and are non-trivial: >= 2 steps not all equal, or an encoding of >= 2 printed lines. \
         Enumeration: families boundary (every varint-boundary seed x every bit-width-boundary task id x 7 step shapes), seq3 \
         (ALL sequences over {Task(a),Task(b),Random} up to the length bound for 9 (a,b) pairs with pairwise distinct ids x 2 seeds), \
         long (12 patterns x every length 0..=long_max x seeds, plus lengths 16383..16385), each schedule in its printed form and \
         every re-formatting variant, every proper prefix per hex digit (all for encodings <= prefix_bound digits; head 32, tail 96 \
         and the needed/padding frontier +-8 otherwise), single-digit deletions, non-hex substitutions, trailing bytes; hdrsub \
         (every single-hex-digit substitution in every header byte of 9 base schedules per seed), width (21 width fields x 5 lengths x 4 \
         payload patterns x 24 payload sizes), length (44 length fields 1..2^64-1 x widths x 2 patterns x payload sizes), magic (every \
         first byte != 0x91 x 5 bodies), fixed (empty / whitespace-only / non-hex literals, every single ASCII character).",
    );
    res.cov("bounds", json!({"seq3_max_len": b.seq_len, "seq3_pairs": gen::seq_pairs().len(), "seq3_seeds": gen::seq_seeds().len(),
        "long_max_len": b.long_max, "long_patterns": gen::LONG_PATTERNS, "prefix_bound_hex_digits": b.prefix_bound,
        "seeds": gen::seeds_all().len(), "task_ids": gen::ids_all().len()}));
    res.cov("families", Value::Object(fam_cov));
    res.cov("by_input_kind", Value::Object(kinds));
    res.cov("by_reference_class", Value::Object(refc));
    res.cov("schedules_encoded", total[S_ENCODES]);
    res.cov("schedules_nontrivial_with_duplicates", total[S_NONTRIVIAL]);
    res.cov("encodings_multi_line", total[S_MULTILINE]);
    res.cov("encodings_exact_multiple_of_76_digits", total[S_EXACT76]);
    res.cov("max_printed_lines", total[S_MAXLINES]);
    res.cov("padding_only_truncations", total[S_PAD_ONLY]);
    res.cov("padding_only_truncations_decoded_to_same_schedule", total[S_PAD_ONLY_SOME]);
    res.cov("worker_deaths_inside_decoder", crashes);
    res.cov("violating_cases", total[S_FINDINGS] + crashes);
    res.cov("finding_counts", json!(key_counts));
    res.cov("caps_hit", json!(caps));
    res.cov("exhaustive", exhaustive);
    res.cov("worker_processes", njobs as u64);
    for s in samples {
        res.sample(s);
    }
    res.assumptions.push("Task ids are usize on a 64-bit target; usize::MAX = 2^64-1 is the widest id.".into());
    res.assumptions.push(
        "'Cut short' is judged by needed bits (header varints complete, tag bit and id bits of every step present); a truncation \
         that removes only tail padding may decode to the original schedule and is accepted as None or Some(original)."
            .into(),
    );
    res.assumptions.push(
        "Strictly demanded forms: as printed, line breaks removed, ASCII whitespace before/after. Interior spaces, CRLF, re-wrapping, \
         upper case and Unicode spaces are only required not to crash and not to decode into a different schedule."
            .into(),
    );
    res.assumptions.push(
        "Strings the statement does not classify (width field 0 or > 64 with a task step, varints beyond 64 bits) are only required \
         not to crash; well-formed non-canonical strings (trailing bytes, changed header digit) must give None or the reference reading."
            .into(),
    );
    res.assumptions.push("Workers run with RLIMIT_AS = 2 GiB, so a pre-allocation of >= 2^27 steps fails deterministically.".into());

    // findings: one key per failing site; shortest witness first
    all_findings.sort_by(|a, b| (a.key.as_str(), a.input_len, a.what.as_str()).cmp(&(b.key.as_str(), b.input_len, b.what.as_str())));
    let mut per_key: HashMap<String, usize> = HashMap::new();
    for f in all_findings {
        let n = per_key.entry(f.key.clone()).or_insert(0);
        *n += 1;
        if *n <= 5 {
            let total_n = key_counts.get(&f.key).copied().unwrap_or(0);
            let what = if *n == 1 { format!("{} [{} case(s) with this key in this run]", f.what, total_n.max(1)) } else { f.what };
            res.finding(f.key, what, f.replay);
        }
    }
    let _ = std::fs::remove_dir_all(&scratch);
    vx::common::finish(&ctx, res)
}

// ---- replay -----------------------------------------------------------------------------------
fn one_main() -> ! {
    limit_address_space();
    eval::install_quiet_hook();
    let mut s = String::new();
    let _ = std::io::stdin().read_to_string(&mut s);
    let v: Value = serde_json::from_str(&s).unwrap_or(Value::Null);
    let case = match Case::from_json(&v) {
        Some(c) => c,
        None => {
            println!("replay: cannot parse the case");
            std::process::exit(3)
        }
    };
    if case.label == "encode" {
        if let eval::Expect::Exactly(sch) = &case.expect {
            println!("serialize_schedule({})", gen::sched_brief(sch));
            let _ = std::io::stdout().flush();
            match eval::encode(sch) {
                Ok(p) => println!("  observed: {:?}", p),
                Err(o) => println!("  observed: {}", o.describe()),
            }
        }
        std::process::exit(0);
    }
    println!("input ({} chars): {:?}", case.input.chars().count(), case.input.chars().take(400).collect::<String>());
    println!("input class: {} / {}", case.kind.name(), case.label);
    println!("reference reading: {}", refdec::ref_decode(&case.input).describe());
    match &case.expect {
        eval::Expect::Exactly(s) => println!("demanded: Some({})", gen::sched_brief(s)),
        eval::Expect::NoneOr(s) => println!("demanded: None or Some({}), no crash", gen::sched_brief(s)),
        eval::Expect::ByRef => println!("demanded: by reference reading (invalid => None; valid => None or that schedule; unspecified => no crash)"),
    }
    let _ = std::io::stdout().flush();
    let obs = observe(&case.input);
    println!("observed: deserialize_schedule(input) = {}", obs.describe());
    match judge(&case, &obs, true).violation {
        Some((k, w)) => println!("verdict: VIOLATION key={} :: {}", k, w),
        None => println!("verdict: property holds for this case"),
    }
    std::process::exit(0);
}

fn replay_main(path: &str) -> ! {
    let doc: Value = match std::fs::read_to_string(path).ok().and_then(|s| serde_json::from_str(&s).ok()) {
        Some(v) => v,
        None => {
            eprintln!("MACHINERY-ERROR: cannot read replay file {}", path);
            std::process::exit(2)
        }
    };
    let case = &doc["replay"]["case"];
    println!("replaying C16 case key={} (family {}, item {}, case {})", doc["key"], doc["replay"]["family"], doc["replay"]["item"], doc["replay"]["sub"]);
    let exe = Ok::<std::path::PathBuf, std::io::Error>(std::path::PathBuf::from("/proc/self/exe")).unwrap_or_else(|_| std::process::exit(2));
    let child = Command::new(exe).arg("one").env("RUST_BACKTRACE", "0").stdin(Stdio::piped()).stdout(Stdio::piped()).stderr(Stdio::piped()).spawn();
    let mut child = match child {
        Ok(c) => c,
        Err(e) => {
            eprintln!("MACHINERY-ERROR: cannot spawn: {}", e);
            std::process::exit(2)
        }
    };
    {
        let mut si = child.stdin.take().unwrap();
        let _ = si.write_all(case.to_string().as_bytes());
    }
    let out = match child.wait_with_output() {
        Ok(o) => o,
        Err(e) => {
            eprintln!("MACHINERY-ERROR: {}", e);
            std::process::exit(2)
        }
    };
    print!("{}", String::from_utf8_lossy(&out.stdout));
    if !out.status.success() {
        let err = String::from_utf8_lossy(&out.stderr);
        println!(
            "observed: the call took the process down ({}); stderr: {}",
            match out.status.signal() {
                Some(s) => format!("signal {}", s),
                None => format!("exit code {:?}", out.status.code()),
            },
            err.lines().find(|l| l.contains("memory allocation of")).or(err.lines().next()).unwrap_or("")
        );
        println!("verdict: VIOLATION (crash inside the codec; address space limited to 2 GiB)");
    }
    std::process::exit(0);
}

/// A panic of the harness itself is a machinery error (exit 2), never a verdict.
fn guarded(id: &str, tier: Tier) -> ! {
    eval::install_quiet_hook(); // prints loudly for panics outside the codec
    let _ = std::panic::catch_unwind(|| check_main(id, tier));
    std::process::exit(2)
}

fn main() {
    let args: Vec<String> = std::env::args().skip(1).collect();
    match args.first().map(|s| s.as_str()) {
        Some("worker") => worker_main(&args[1..]),
        Some("one") => one_main(),
        Some("check") => {
            let id = args.get(1).cloned().unwrap_or_default();
            if id != "C16" {
                eprintln!("MACHINERY-ERROR: vx-c16 implements C16 only (got '{}')", id);
                std::process::exit(2);
            }
            match args.get(2).map(|s| s.as_str()) {
                Some("--replay") => match args.get(3) {
                    Some(p) => replay_main(p),
                    None => {
                        eprintln!("MACHINERY-ERROR: --replay needs a path");
                        std::process::exit(2)
                    }
                },
                Some("quick") => guarded(&id, Tier::Quick),
                Some("thorough") => guarded(&id, Tier::Thorough),
                other => {
                    let t = other.map(|s| s.to_string()).or_else(|| std::env::var("VERIF_TIER").ok());
                    match t.as_deref() {
                        Some("thorough") => guarded(&id, Tier::Thorough),
                        Some("quick") | None => guarded(&id, Tier::Quick),
                        Some(x) => {
                            eprintln!("MACHINERY-ERROR: unknown tier '{}'", x);
                            std::process::exit(2)
                        }
                    }
                }
            }
        }
        _ => {
            eprintln!("usage: vx-c16 check C16 quick|thorough|--replay <file>");
            std::process::exit(2);
        }
    }
}
