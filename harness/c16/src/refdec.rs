//! Reference reading of the schedule wire format, written from the format comment in
//! shuttle-engine/src/scheduler/serialization.rs:75-82 with plain byte/bit arithmetic (no bitvec, no
//! hex crate, no shared code with the decoder under test):
//!
//!   hex( 0x91, LEB128 width, LEB128 len, LEB128 seed, steps ), wrapped at 76 columns
//!   steps: bit-packed LSB-first; tag bit 1 = Random, tag bit 0 = task id in the next `width` bits
//!   (little-endian).
//!
//! It classifies *any* string into
//!   * `Invalid(class)`  — one of the classes the property statement names: empty, not hexadecimal
//!     (a non-hex character or an odd number of digits), unknown version, cut short (header varint
//!     incomplete, or a bit that a step *needs* is not there).  Oracle: decoder must return `None`.
//!   * `Valid(schedule)` — every needed bit is present.  This covers exact encoder output, and also
//!     strings the encoder never prints (trailing bytes, lost padding, non-minimal varints, wider
//!     width than necessary).  Oracle for non-canonical ones: `None` or `Some(exactly this schedule)`.
//!   * `Unspec(why)`     — the statement says nothing about the return value (width field 0 or
//!     wider than usize with a task step, varint beyond 64 bits).  Oracle: must not crash.
//!
//! "Cut short" is decided from needed bits only: the encoder reserves `len * (1 + width)` bits but a
//! `Random` step uses one, so the tail of an encoding with Random steps is padding.  A truncation
//! that removes only padding leaves every needed bit in place and is classified `Valid`.

use shuttle_engine::runtime::task::TaskId;
use shuttle_engine::scheduler::{Schedule, ScheduleStep};

pub const MAGIC: u8 = 0x91;

#[derive(Clone, Copy, Debug, PartialEq, Eq, Hash)]
pub enum Class {
    Empty,
    NonHex,
    OddLength,
    BadMagic,
    TruncHeader,
    TruncBody,
}

impl Class {
    pub fn name(&self) -> &'static str {
        match self {
            Class::Empty => "empty",
            Class::NonHex => "non-hex",
            Class::OddLength => "odd-length",
            Class::BadMagic => "unknown-version",
            Class::TruncHeader => "cut-short-header",
            Class::TruncBody => "cut-short-body",
        }
    }
    pub fn index(&self) -> usize {
        *self as usize
    }
    pub const COUNT: usize = 6;
    pub const ALL: [Class; 6] = [
        Class::Empty,
        Class::NonHex,
        Class::OddLength,
        Class::BadMagic,
        Class::TruncHeader,
        Class::TruncBody,
    ];
}

#[derive(Clone, Debug, PartialEq, Eq)]
pub enum Ref {
    Invalid(Class),
    Valid(Schedule),
    Unspec(&'static str),
}

impl Ref {
    pub fn describe(&self) -> String {
        match self {
            Ref::Invalid(c) => format!("invalid:{}", c.name()),
            Ref::Valid(s) => format!("valid:{}", crate::gen::sched_brief(s)),
            Ref::Unspec(w) => format!("unspecified:{}", w),
        }
    }
}

enum VarErr {
    Eof,
    Overflow,
}

fn read_varint(b: &[u8], pos: &mut usize) -> Result<u64, VarErr> {
    let mut result: u128 = 0;
    for i in 0..10u32 {
        let byte = *b.get(*pos).ok_or(VarErr::Eof)?;
        *pos += 1;
        result |= ((byte & 0x7f) as u128) << (7 * i);
        if byte & 0x80 == 0 {
            return if result > u64::MAX as u128 {
                Err(VarErr::Overflow)
            } else {
                Ok(result as u64)
            };
        }
    }
    Err(VarErr::Overflow)
}

fn hexval(c: char) -> Option<u8> {
    match c {
        '0'..='9' => Some(c as u8 - b'0'),
        'a'..='f' => Some(c as u8 - b'a' + 10),
        'A'..='F' => Some(c as u8 - b'A' + 10),
        _ => None,
    }
}

pub fn ref_decode(input: &str) -> Ref {
    let mut digits: Vec<u8> = Vec::with_capacity(input.len());
    let mut nonhex = false;
    if input.is_ascii() {
        // same reading as the general loop below, byte-wise (ASCII whitespace per char::is_whitespace:
        // TAB, LF, VT, FF, CR, SPACE)
        for &b in input.as_bytes() {
            match b {
                b'0'..=b'9' => digits.push(b - b'0'),
                b'a'..=b'f' => digits.push(b - b'a' + 10),
                b'A'..=b'F' => digits.push(b - b'A' + 10),
                9..=13 | 32 => {}
                _ => nonhex = true,
            }
        }
    } else {
        for c in input.chars() {
            if c.is_whitespace() {
                continue;
            }
            match hexval(c) {
                Some(v) => digits.push(v),
                None => nonhex = true,
            }
        }
    }
    if nonhex {
        return Ref::Invalid(Class::NonHex);
    }
    if digits.is_empty() {
        return Ref::Invalid(Class::Empty);
    }
    if digits.len() % 2 == 1 {
        return Ref::Invalid(Class::OddLength);
    }
    let bytes: Vec<u8> = digits.chunks(2).map(|p| (p[0] << 4) | p[1]).collect();
    if bytes[0] != MAGIC {
        return Ref::Invalid(Class::BadMagic);
    }
    let mut pos = 1usize;
    let mut hdr = [0u64; 3];
    for h in hdr.iter_mut() {
        match read_varint(&bytes, &mut pos) {
            Ok(v) => *h = v,
            Err(VarErr::Eof) => return Ref::Invalid(Class::TruncHeader),
            Err(VarErr::Overflow) => return Ref::Unspec("varint-beyond-64-bits"),
        }
    }
    let (width, len, seed) = (hdr[0] as u128, hdr[1], hdr[2]);
    let payload = &bytes[pos..];
    let nbits = payload.len() as u128 * 8;
    let bit = |i: u128| -> bool { (payload[(i / 8) as usize] >> (i % 8)) & 1 == 1 };
    let mut steps: Vec<ScheduleStep> = Vec::new();
    let mut off: u128 = 0;
    let mut n: u64 = 0;
    while n < len {
        // every step needs at least its tag bit, so this loop runs at most nbits+1 times whatever
        // the length field claims
        if off >= nbits {
            return Ref::Invalid(Class::TruncBody);
        }
        if bit(off) {
            steps.push(ScheduleStep::Random);
            off += 1;
        } else {
            if off + 1 + width > nbits {
                return Ref::Invalid(Class::TruncBody);
            }
            if width == 0 {
                return Ref::Unspec("width-0-task-step");
            }
            if width > usize::BITS as u128 {
                return Ref::Unspec("width-beyond-usize-task-step");
            }
            let mut id: usize = 0;
            for j in 0..width {
                if bit(off + 1 + j) {
                    id |= 1usize << j;
                }
            }
            steps.push(ScheduleStep::Task(TaskId::from(id)));
            off += 1 + width;
        }
        n += 1;
    }
    Ref::Valid(Schedule { seed, steps })
}

/// LEB128 size, computed independently of the crate's `space_needed`.
pub fn varint_len(mut v: u64) -> usize {
    let mut n = 1;
    while v >= 0x80 {
        v >>= 7;
        n += 1;
    }
    n
}

/// (header bytes, needed payload bits, reserved payload bits) of the canonical encoding of `s`,
/// from arithmetic on the schedule alone.  Used to cross-check the reference classification of
/// prefixes (a disagreement is a machinery error, never a finding).
pub fn canonical_layout(s: &Schedule) -> (usize, u128, u128) {
    let mut max_id = 0usize;
    let mut tasks = 0u128;
    for st in &s.steps {
        if let ScheduleStep::Task(t) = st {
            tasks += 1;
            max_id = max_id.max(usize::from(*t));
        }
    }
    let width = ((usize::BITS - max_id.leading_zeros()) as u128).max(1);
    let n = s.steps.len() as u128;
    let header = 1 + varint_len(width as u64) + varint_len(s.steps.len() as u64) + varint_len(s.seed);
    (header, n + tasks * width, n * (1 + width))
}
