//! Family `tlock`: shuttle-tokio's `sync::{Mutex, RwLock, Semaphore}` against the contracts tokio
//! documents: mutual exclusion / shared-exclusive access / permit conservation, and **FIFO
//! fairness** — "lock requests are served in the order they were requested" (Mutex), "fair (or
//! write-preferring) … first-in first-out queue for the tasks awaiting the lock; if a writer is at the
//! head of the queue, read locks will not be given out" (RwLock), "permits are given out in the order
//! they were requested, including `acquire_many`" (Semaphore).  `try_*` never waits and never
//! overtakes a queued request.
//!
//! All three contracts are instances of one abstract object, a counter of permits with a FIFO queue
//! of requests (Mutex: 1 permit; RwLock: `max_readers` permits, a writer needs all; Semaphore: n).

use crate::driver::XFamily;
use shuttle_tokio_impl_inner::sync::{
    Mutex, MutexGuard, OwnedMutexGuard, OwnedRwLockReadGuard, OwnedRwLockWriteGuard, OwnedSemaphorePermit, RwLock, RwLockReadGuard, RwLockWriteGuard, Semaphore,
    SemaphorePermit, TryAcquireError,
};
use std::future::Future;
use std::pin::Pin;
use std::sync::Arc;
use vx::prog::*;

// ---------------------------------------------------------------------------------------------
// The abstract fair counter (also used by the watch family for the lock around the value)
// ---------------------------------------------------------------------------------------------

#[derive(Clone, Debug, PartialEq, Eq, Hash)]
pub struct FairSem {
    pub avail: u16,
    pub closed: bool,
    /// waiting requests, oldest first: (requester, permits)
    pub queue: Vec<(u8, u16)>,
    /// requests that were handed their permits by a release and have not yet noticed
    pub granted: Vec<(u8, u16)>,
}

#[derive(Clone, Copy, Debug, PartialEq, Eq)]
pub enum Acq {
    Ok,
    Closed,
    NoPermits,
}

impl FairSem {
    pub fn new(p: u16) -> Self {
        FairSem {
            avail: p,
            closed: false,
            queue: vec![],
            granted: vec![],
        }
    }
    /// a request arrives: Some(result) if it is decided at once, None if it joins the queue
    pub fn arrive(&mut self, id: u8, n: u16) -> Option<Acq> {
        if self.closed {
            return Some(Acq::Closed);
        }
        if n == 0 {
            // a request for nothing is granted at once (tokio: `acquire_many(0)`)
            return Some(Acq::Ok);
        }
        if self.queue.is_empty() && n <= self.avail {
            self.avail -= n;
            return Some(Acq::Ok);
        }
        self.queue.push((id, n));
        None
    }
    /// can the waiting request of `id` complete now?
    pub fn complete(&mut self, id: u8) -> Option<Acq> {
        if let Some(pos) = self.granted.iter().position(|g| g.0 == id) {
            self.granted.remove(pos);
            return Some(Acq::Ok);
        }
        if !self.queue.iter().any(|q| q.0 == id) {
            // thrown out of the queue by close()
            return Some(Acq::Closed);
        }
        None
    }
    pub fn try_acquire(&mut self, n: u16) -> Acq {
        if self.closed {
            Acq::Closed
        } else if n == 0 || (self.queue.is_empty() && n <= self.avail) {
            self.avail -= n;
            Acq::Ok
        } else {
            Acq::NoPermits
        }
    }
    pub fn release(&mut self, n: u16) {
        self.avail += n;
        while let Some(&(id, k)) = self.queue.first() {
            if k <= self.avail {
                self.avail -= k;
                self.queue.remove(0);
                self.granted.push((id, k));
                self.granted.sort();
            } else {
                break;
            }
        }
    }
    pub fn close(&mut self) {
        self.closed = true;
        self.queue.clear();
    }
    /// a waiting request is withdrawn (its future is dropped)
    pub fn cancel(&mut self, id: u8) {
        if let Some(pos) = self.granted.iter().position(|g| g.0 == id) {
            let (_, k) = self.granted.remove(pos);
            self.release(k);
        } else if let Some(pos) = self.queue.iter().position(|q| q.0 == id) {
            self.queue.remove(pos);
            if pos == 0 {
                self.release(0);
            }
        }
    }
}

// ---------------------------------------------------------------------------------------------

#[derive(Clone, Copy, Debug, PartialEq, Eq, Hash)]
pub enum Kind {
    Mutex,
    /// RwLock::new (practically unlimited readers)
    RwLock,
    /// RwLock::with_max_readers(_, 2)
    RwLock2,
    /// Semaphore::new(p)
    Sem(u8),
}

/// how the lock / permit is requested
#[derive(Clone, Copy, Debug, PartialEq, Eq, Hash)]
pub enum How {
    /// `.await` on the borrowing variant
    Await,
    /// `.await` on the `_owned` variant
    Owned,
    /// `blocking_*`
    Blocking,
    Try,
    TryOwned,
}

#[derive(Clone, Debug, PartialEq, Eq, Hash)]
pub enum LOp {
    /// Mutex::{lock, lock_owned, blocking_lock, try_lock, try_lock_owned}
    Lock(How),
    /// RwLock::{read, read_owned, blocking_read, try_read, try_read_owned}
    Read(How),
    /// RwLock::{write, write_owned, blocking_write, try_write, try_write_owned}
    Write(How),
    /// write guard → read guard
    Downgrade,
    /// Semaphore::{acquire_many, acquire_many_owned, -, try_acquire_many, try_acquire_many_owned}
    Acquire(How, u8),
    /// drop the guard / permit this thread holds
    Release,
    /// SemaphorePermit::forget
    Forget,
    AddPermits(u8),
    Close,
    Avail,
    IsClosed,
}

#[derive(Clone, Debug, PartialEq, Eq, Hash, PartialOrd, Ord)]
pub enum LRes {
    Unit,
    Ok,
    /// TryLockError / TryAcquireError::NoPermits
    WouldBlock,
    Closed,
    Num(usize),
    Bool(bool),
    /// nothing held
    Nothing,
}

pub struct LObjs {
    m: Arc<Mutex<u32>>,
    rw: Arc<RwLock<u32>>,
    s: Arc<Semaphore>,
}

#[allow(dead_code)] // the guards are held for their effect, never read
pub enum Held {
    M(MutexGuard<'static, u32>),
    MO(OwnedMutexGuard<u32>),
    R(RwLockReadGuard<'static, u32>),
    RO(OwnedRwLockReadGuard<u32>),
    W(RwLockWriteGuard<'static, u32>),
    WO(OwnedRwLockWriteGuard<u32>),
    P(SemaphorePermit<'static>),
    PO(OwnedSemaphorePermit),
}

pub struct LLocals {
    /// guards / permits held, most recent last
    held: Vec<Held>,
}

#[derive(Clone, Debug, PartialEq, Eq, Hash)]
pub struct LM {
    sem: FairSem,
    /// permits a writer needs
    all: u16,
    /// permits held by each thread's guards, most recent last
    held: Vec<Vec<u16>>,
}

pub struct LockFam;

unsafe fn ext<'a, T>(r: &'a T) -> &'static T {
    std::mem::transmute(r)
}

/// symbolic "all permits" of an unlimited RwLock
const MANY: u16 = 1000;

fn try_res<T>(r: Result<T, TryAcquireError>) -> Result<T, LRes> {
    match r {
        Ok(v) => Ok(v),
        Err(TryAcquireError::Closed) => Err(LRes::Closed),
        Err(TryAcquireError::NoPermits) => Err(LRes::WouldBlock),
    }
}

impl LockFam {
    fn store(l: &mut LLocals, h: Held) -> LRes {
        l.held.push(h);
        LRes::Ok
    }

    fn exec_sync(o: &LObjs, l: &mut LLocals, op: &LOp) -> LRes {
        let m: &'static Mutex<u32> = unsafe { ext(&*o.m) };
        let rw: &'static RwLock<u32> = unsafe { ext(&*o.rw) };
        let s: &'static Semaphore = unsafe { ext(&*o.s) };
        match op {
            LOp::Lock(How::Blocking) => {
                let g = m.blocking_lock();
                Self::store(l, Held::M(g))
            }
            LOp::Lock(How::Try) => match m.try_lock() {
                Ok(g) => Self::store(l, Held::M(g)),
                Err(_) => LRes::WouldBlock,
            },
            LOp::Lock(How::TryOwned) => match o.m.clone().try_lock_owned() {
                Ok(g) => Self::store(l, Held::MO(g)),
                Err(_) => LRes::WouldBlock,
            },
            LOp::Read(How::Blocking) => {
                let g = rw.blocking_read();
                Self::store(l, Held::R(g))
            }
            LOp::Read(How::Try) => match rw.try_read() {
                Ok(g) => Self::store(l, Held::R(g)),
                Err(_) => LRes::WouldBlock,
            },
            LOp::Read(How::TryOwned) => match o.rw.clone().try_read_owned() {
                Ok(g) => Self::store(l, Held::RO(g)),
                Err(_) => LRes::WouldBlock,
            },
            LOp::Write(How::Blocking) => {
                let g = rw.blocking_write();
                Self::store(l, Held::W(g))
            }
            LOp::Write(How::Try) => match rw.try_write() {
                Ok(g) => Self::store(l, Held::W(g)),
                Err(_) => LRes::WouldBlock,
            },
            LOp::Write(How::TryOwned) => match o.rw.clone().try_write_owned() {
                Ok(g) => Self::store(l, Held::WO(g)),
                Err(_) => LRes::WouldBlock,
            },
            LOp::Downgrade => match l.held.pop() {
                Some(Held::W(g)) => {
                    l.held.push(Held::R(g.downgrade()));
                    LRes::Ok
                }
                Some(Held::WO(g)) => {
                    l.held.push(Held::RO(g.downgrade()));
                    LRes::Ok
                }
                Some(other) => {
                    l.held.push(other);
                    LRes::Nothing
                }
                None => LRes::Nothing,
            },
            LOp::Acquire(How::Try, n) => match try_res(s.try_acquire_many(*n as u32)) {
                Ok(p) => Self::store(l, Held::P(p)),
                Err(e) => e,
            },
            LOp::Acquire(How::TryOwned, n) => match try_res(o.s.clone().try_acquire_many_owned(*n as u32)) {
                Ok(p) => Self::store(l, Held::PO(p)),
                Err(e) => e,
            },
            LOp::Release => match l.held.pop() {
                Some(h) => {
                    drop(h);
                    LRes::Unit
                }
                None => LRes::Nothing,
            },
            LOp::Forget => match l.held.pop() {
                Some(Held::P(p)) => {
                    p.forget();
                    LRes::Unit
                }
                Some(Held::PO(p)) => {
                    p.forget();
                    LRes::Unit
                }
                Some(other) => {
                    l.held.push(other);
                    LRes::Nothing
                }
                None => LRes::Nothing,
            },
            LOp::AddPermits(n) => {
                s.add_permits(*n as usize);
                LRes::Unit
            }
            LOp::Close => {
                s.close();
                LRes::Unit
            }
            LOp::Avail => LRes::Num(s.available_permits()),
            LOp::IsClosed => LRes::Bool(s.is_closed()),
            LOp::Lock(_) | LOp::Read(_) | LOp::Write(_) | LOp::Acquire(..) => unreachable!("async operation in a synchronous context: {:?}", op),
        }
    }
}

impl Family for LockFam {
    type Op = LOp;
    type Res = LRes;
    type Cfg = Kind;
    type Objs = LObjs;
    type Locals = LLocals;
    type M = LM;
    const NAME: &'static str = "tlock";
    const ASYNC: bool = true;

    fn make_objs(cfg: &Kind, _n: usize) -> LObjs {
        LObjs {
            m: Arc::new(Mutex::new(0)),
            rw: Arc::new(match cfg {
                Kind::RwLock2 => RwLock::with_max_readers(0, 2),
                _ => RwLock::new(0),
            }),
            s: Arc::new(Semaphore::new(match cfg {
                Kind::Sem(p) => *p as usize,
                _ => 0,
            })),
        }
    }
    fn new_locals(_cfg: &Kind, _t: usize) -> LLocals {
        LLocals { held: Vec::new() }
    }
    fn end_thread(_o: &LObjs, l: LLocals, _t: usize) {
        // a thread that ends holding a guard never releases it
        for h in l.held {
            std::mem::forget(h);
        }
    }
    fn exec(o: &LObjs, l: &mut LLocals, _t: usize, op: &LOp) -> LRes {
        Self::exec_sync(o, l, op)
    }
    fn exec_async<'a>(o: &'a LObjs, l: &'a mut LLocals, _t: usize, op: &'a LOp) -> Pin<Box<dyn Future<Output = LRes> + 'a>> {
        Box::pin(async move {
            let m: &'static Mutex<u32> = unsafe { ext(&*o.m) };
            let rw: &'static RwLock<u32> = unsafe { ext(&*o.rw) };
            let s: &'static Semaphore = unsafe { ext(&*o.s) };
            match op {
                LOp::Lock(How::Await) => {
                    let g = m.lock().await;
                    Self::store(l, Held::M(g))
                }
                LOp::Lock(How::Owned) => {
                    let g = o.m.clone().lock_owned().await;
                    Self::store(l, Held::MO(g))
                }
                LOp::Read(How::Await) => {
                    let g = rw.read().await;
                    Self::store(l, Held::R(g))
                }
                LOp::Read(How::Owned) => {
                    let g = o.rw.clone().read_owned().await;
                    Self::store(l, Held::RO(g))
                }
                LOp::Write(How::Await) => {
                    let g = rw.write().await;
                    Self::store(l, Held::W(g))
                }
                LOp::Write(How::Owned) => {
                    let g = o.rw.clone().write_owned().await;
                    Self::store(l, Held::WO(g))
                }
                LOp::Acquire(How::Await, n) => match s.acquire_many(*n as u32).await {
                    Ok(p) => Self::store(l, Held::P(p)),
                    Err(_) => LRes::Closed,
                },
                LOp::Acquire(How::Owned, n) => match o.s.clone().acquire_many_owned(*n as u32).await {
                    Ok(p) => Self::store(l, Held::PO(p)),
                    Err(_) => LRes::Closed,
                },
                LOp::Acquire(How::Blocking, _) => unreachable!("tokio's Semaphore has no blocking acquire"),
                _ => Self::exec_sync(o, l, op),
            }
        })
    }

    fn m_abortable(op: &LOp, _phase: u8) -> bool {
        matches!(op, LOp::Lock(How::Await | How::Owned) | LOp::Read(How::Await | How::Owned) | LOp::Write(How::Await | How::Owned) | LOp::Acquire(How::Await | How::Owned, _))
    }
    fn m_on_finish(m: &mut LM, t: usize) {
        // a cancelled task withdraws its queued request
        m.sem.cancel(t as u8);
    }
    fn objects_of(_op: &LOp) -> Vec<u32> {
        vec![0xC10]
    }

    fn m_init(cfg: &Kind, n: usize) -> LM {
        let all = match cfg {
            Kind::Mutex => 1,
            Kind::RwLock => MANY,
            Kind::RwLock2 => 2,
            Kind::Sem(p) => *p as u16,
        };
        LM {
            sem: FairSem::new(all),
            all,
            held: vec![Vec::new(); n],
        }
    }

    fn m_step(m: &LM, t: usize, op: &LOp, phase: u8, _strict: bool) -> Vec<MStep<LM, LRes>> {
        let mut n = m.clone();
        let id = t as u8;
        let (how, k): (How, u16) = match op {
            LOp::Lock(h) => (*h, 1),
            LOp::Read(h) => (*h, 1),
            LOp::Write(h) => (*h, n.all),
            LOp::Acquire(h, k) => (*h, *k as u16),
            LOp::Downgrade => {
                if n.held[t].last() != Some(&n.all) || n.all == 1 {
                    return vec![MStep::Done(n, LRes::Nothing)];
                }
                let back = n.all - 1;
                *n.held[t].last_mut().unwrap() = 1;
                n.sem.release(back);
                return vec![MStep::Done(n, LRes::Ok)];
            }
            LOp::Release => {
                return match n.held[t].pop() {
                    None => vec![MStep::Done(n, LRes::Nothing)],
                    Some(back) => {
                        n.sem.release(back);
                        vec![MStep::Done(n, LRes::Unit)]
                    }
                };
            }
            LOp::Forget => {
                return match n.held[t].pop() {
                    None => vec![MStep::Done(n, LRes::Nothing)],
                    Some(_) => vec![MStep::Done(n, LRes::Unit)],
                };
            }
            LOp::AddPermits(k) => {
                n.sem.release(*k as u16);
                return vec![MStep::Done(n, LRes::Unit)];
            }
            LOp::Close => {
                n.sem.close();
                return vec![MStep::Done(n, LRes::Unit)];
            }
            LOp::Avail => {
                let a = n.sem.avail as usize;
                return vec![MStep::Done(n, LRes::Num(a))];
            }
            LOp::IsClosed => {
                let c = n.sem.closed;
                return vec![MStep::Done(n, LRes::Bool(c))];
            }
        };
        let conv = |a: Acq| match a {
            Acq::Ok => LRes::Ok,
            Acq::Closed => LRes::Closed,
            Acq::NoPermits => LRes::WouldBlock,
        };
        if k == 0 && crate::driver::wk(W_ZERO_PANICS) && !n.sem.closed {
            return vec![MStep::Panic("assertion failed: num_permits > 0".into())];
        }
        match how {
            How::Try | How::TryOwned => {
                let r = n.sem.try_acquire(k);
                if r == Acq::Ok {
                    n.held[t].push(k);
                }
                vec![MStep::Done(n, conv(r))]
            }
            How::Await | How::Owned | How::Blocking => {
                let r = if phase == 0 { n.sem.arrive(id, k) } else { n.sem.complete(id) };
                match r {
                    Some(a) => {
                        if a == Acq::Ok {
                            n.held[t].push(k);
                        }
                        vec![MStep::Done(n, conv(a))]
                    }
                    None => {
                        if phase == 0 {
                            vec![MStep::Cont(n, 1)]
                        } else {
                            vec![]
                        }
                    }
                }
            }
        }
    }
}

/// Recorded finding: `Semaphore::{acquire_many, try_acquire_many}(0)` trips an assertion of the
/// underlying BatchSemaphore (`num_permits > 0`) instead of succeeding at once.
pub const W_ZERO_PANICS: u32 = 1;

impl XFamily for LockFam {
    fn weakenings(cfg: &Kind) -> Vec<(&'static str, u32)> {
        match cfg {
            Kind::Sem(_) => vec![("semaphore-request-for-zero-permits-panics", W_ZERO_PANICS)],
            _ => vec![],
        }
    }
}

// ---------------------------------------------------------------------------------------------
// Program generation
// ---------------------------------------------------------------------------------------------

/// All sequences of ≤ k ops over `alpha` in which a thread holds at most one guard and only
/// releases / downgrades / forgets what it holds.  `blocking` = the thread may use blocking_* (then
/// it uses no awaiting operation).
fn thread_seqs(alpha: &[LOp], k: usize) -> Vec<Vec<LOp>> {
    fn acquires(o: &LOp) -> bool {
        matches!(o, LOp::Lock(_) | LOp::Read(_) | LOp::Write(_) | LOp::Acquire(..))
    }
    fn is_try(o: &LOp) -> bool {
        matches!(o, LOp::Lock(How::Try | How::TryOwned) | LOp::Read(How::Try | How::TryOwned) | LOp::Write(How::Try | How::TryOwned) | LOp::Acquire(How::Try | How::TryOwned, _))
    }
    // held: 0 = nothing, 1 = something (maybe, after a try), 2 = write guard for sure,
    // 3 = one guard plus the outcome of an attempt made while holding it
    fn rec(alpha: &[LOp], k: usize, cur: &mut Vec<LOp>, held: u8, out: &mut Vec<Vec<LOp>>) {
        if !cur.is_empty() {
            out.push(cur.clone());
        }
        if cur.len() == k {
            return;
        }
        for a in alpha {
            let h2 = match a {
                x if acquires(x) => {
                    if held != 0 {
                        // while holding: only a non-waiting attempt, and only once (it may succeed —
                        // a second read guard, further permits — and is then what Release drops first)
                        if !is_try(x) || cur.iter().filter(|o| is_try(o)).count() >= 1 || held == 3 {
                            continue;
                        }
                        3
                    } else if matches!(x, LOp::Write(_)) && !is_try(x) {
                        2
                    } else {
                        1
                    }
                }
                LOp::Release | LOp::Forget => {
                    if held == 0 {
                        continue;
                    }
                    // (after an attempt made while holding, something may still be held)
                    if held == 3 {
                        1
                    } else {
                        0
                    }
                }
                LOp::Downgrade => {
                    if held != 2 {
                        continue;
                    }
                    1
                }
                _ => held,
            };
            cur.push(a.clone());
            rec(alpha, k, cur, h2, out);
            cur.pop();
        }
    }
    let mut out = Vec::new();
    rec(alpha, k, &mut Vec::new(), 0, &mut out);
    out
}

fn interacts(ch: &[Vec<LOp>]) -> bool {
    // at least two threads request something
    ch.iter().filter(|c| c.iter().any(|o| matches!(o, LOp::Lock(_) | LOp::Read(_) | LOp::Write(_) | LOp::Acquire(..)))).count() >= 2
}

fn pairs_and_triples(cfg: Kind, async_alpha: &[LOp], blocking_alpha: &[LOp], k2: usize, k3: usize, max2: usize, max3: usize, mains: &[Vec<LOp>], out: &mut Vec<Program<LockFam>>) {
    let mut s2 = thread_seqs(async_alpha, k2);
    if !blocking_alpha.is_empty() {
        s2.extend(thread_seqs(blocking_alpha, k2).into_iter().filter(|s| s.iter().any(|o| matches!(o, LOp::Lock(How::Blocking) | LOp::Read(How::Blocking) | LOp::Write(How::Blocking)))));
    }
    for idx in nondecreasing_tuples(s2.len(), 2) {
        let ch: Vec<Vec<LOp>> = idx.iter().map(|&i| s2[i].clone()).collect();
        if !interacts(&ch) || ch[0].len() + ch[1].len() > max2 {
            continue;
        }
        for ms in mains {
            out.push(Program::fork_join(cfg, ms.clone(), ch.clone()));
        }
    }
    if k3 > 0 {
        let s3 = thread_seqs(async_alpha, k3);
        for idx in nondecreasing_tuples(s3.len(), 3) {
            let ch: Vec<Vec<LOp>> = idx.iter().map(|&i| s3[i].clone()).collect();
            if !interacts(&ch) || ch.iter().map(|c| c.len()).sum::<usize>() > max3 {
                continue;
            }
            out.push(Program::fork_join(cfg, mains[0].clone(), ch));
        }
    }
}

pub fn program_set(set: &str) -> Vec<Program<LockFam>> {
    let thorough = set == "thorough";
    let mut out = Vec::new();
    // Mutex
    {
        let a = if thorough {
            vec![LOp::Lock(How::Await), LOp::Lock(How::Owned), LOp::Lock(How::Try), LOp::Lock(How::TryOwned), LOp::Release]
        } else {
            vec![LOp::Lock(How::Await), LOp::Lock(How::Try), LOp::Release]
        };
        let b = vec![LOp::Lock(How::Blocking), LOp::Lock(How::Try), LOp::Release];
        if thorough {
            pairs_and_triples(Kind::Mutex, &a, &b, 4, 2, 6, 6, &[vec![]], &mut out);
        } else {
            pairs_and_triples(Kind::Mutex, &a, &b, 3, 2, 5, 3, &[vec![]], &mut out);
            // the owned variants, pairwise against the borrowing ones
            let ao = vec![LOp::Lock(How::Owned), LOp::Lock(How::TryOwned), LOp::Release];
            let so = thread_seqs(&ao, 2);
            let sa = thread_seqs(&a, 2);
            for x in &so {
                for y in &sa {
                    if interacts(&[x.clone(), y.clone()]) {
                        out.push(Program::fork_join(Kind::Mutex, vec![], vec![x.clone(), y.clone()]));
                    }
                }
            }
        }
    }
    // RwLock
    for cfg in [Kind::RwLock, Kind::RwLock2] {
        if cfg == Kind::RwLock2 && !thorough {
            // three readers against the limit of two
            let r = vec![LOp::Read(How::Await)];
            out.push(Program::fork_join(cfg, vec![], vec![r.clone(), r.clone(), r.clone()]));
            out.push(Program::fork_join(cfg, vec![], vec![r.clone(), r.clone(), vec![LOp::Read(How::Try)]]));
            out.push(Program::fork_join(cfg, vec![], vec![vec![LOp::Read(How::Await), LOp::Release], r.clone(), r.clone()]));
            out.push(Program::fork_join(cfg, vec![], vec![r.clone(), r.clone(), vec![LOp::Write(How::Await)]]));
            continue;
        }
        let a = if thorough {
            vec![LOp::Read(How::Await), LOp::Read(How::Owned), LOp::Read(How::Try), LOp::Write(How::Await), LOp::Write(How::Owned), LOp::Write(How::Try), LOp::Downgrade, LOp::Release]
        } else {
            vec![LOp::Read(How::Await), LOp::Read(How::Try), LOp::Write(How::Await), LOp::Write(How::Try), LOp::Downgrade, LOp::Release]
        };
        let b = vec![LOp::Read(How::Blocking), LOp::Write(How::Blocking), LOp::Release];
        if thorough {
            pairs_and_triples(cfg, &a, &b, 3, 2, 5, 4, &[vec![]], &mut out);
            let r = vec![LOp::Read(How::Await), LOp::Release];
            let w = vec![LOp::Write(How::Await), LOp::Release];
            out.push(Program::fork_join(cfg, vec![], vec![r.clone(), w.clone(), r.clone()]));
            out.push(Program::fork_join(cfg, vec![], vec![r.clone(), w.clone(), vec![LOp::Read(How::Try)]]));
            out.push(Program::fork_join(cfg, vec![], vec![vec![LOp::Write(How::Await), LOp::Downgrade, LOp::Release], w.clone(), r.clone()]));
        } else {
            pairs_and_triples(cfg, &a, &b, 2, 0, 4, 0, &[vec![]], &mut out);
            // three single requests, at least one of them a writer that waits: queue order
            let singles = [LOp::Read(How::Await), LOp::Read(How::Try), LOp::Write(How::Await), LOp::Write(How::Try)];
            for idx in nondecreasing_tuples(singles.len(), 3) {
                let ch: Vec<Vec<LOp>> = idx.iter().map(|&i| vec![singles[i].clone()]).collect();
                if ch.iter().any(|c| c[0] == LOp::Write(How::Await)) && ch.iter().any(|c| matches!(c[0], LOp::Read(_))) {
                    out.push(Program::fork_join(cfg, vec![], ch));
                }
            }
            let ao = vec![LOp::Read(How::Owned), LOp::Read(How::TryOwned), LOp::Write(How::Owned), LOp::Write(How::TryOwned), LOp::Downgrade, LOp::Release];
            let so = thread_seqs(&ao, 2);
            let sa = thread_seqs(&[LOp::Read(How::Await), LOp::Write(How::Await), LOp::Release], 2);
            for x in &so {
                for y in &sa {
                    if interacts(&[x.clone(), y.clone()]) {
                        out.push(Program::fork_join(cfg, vec![], vec![x.clone(), y.clone()]));
                    }
                }
            }
            // writer queued between readers: FIFO / write preference
            let r = vec![LOp::Read(How::Await), LOp::Release];
            out.push(Program::fork_join(cfg, vec![], vec![r.clone(), vec![LOp::Write(How::Await)], vec![LOp::Read(How::Await)]]));
            out.push(Program::fork_join(cfg, vec![], vec![vec![LOp::Write(How::Await), LOp::Downgrade], vec![LOp::Write(How::Await)], vec![LOp::Read(How::Await)]]));
        }
    }
    // Semaphore
    for p in if thorough { vec![0u8, 1, 2] } else { vec![0u8, 1] } {
        let cfg = Kind::Sem(p);
        let a = if thorough {
            vec![
                LOp::Acquire(How::Await, 1),
                LOp::Acquire(How::Await, 2),
                LOp::Acquire(How::Try, 1),
                LOp::Acquire(How::TryOwned, 2),
                LOp::Release,
                LOp::Forget,
                LOp::AddPermits(1),
                LOp::Close,
                LOp::Avail,
            ]
        } else {
            vec![LOp::Acquire(How::Await, 1), LOp::Acquire(How::Await, 2), LOp::Acquire(How::Try, 1), LOp::Release, LOp::AddPermits(1), LOp::Close, LOp::Avail]
        };
        let mains: Vec<Vec<LOp>> = if p == 0 {
            if thorough {
                vec![vec![LOp::AddPermits(1)], vec![LOp::AddPermits(2)], vec![LOp::Close]]
            } else {
                vec![vec![LOp::AddPermits(1)], vec![LOp::Close]]
            }
        } else {
            vec![vec![], vec![LOp::AddPermits(1)]]
        };
        if thorough {
            pairs_and_triples(cfg, &a, &[], 3, 2, 4, 3, &mains, &mut out);
            if p == 0 {
                let a1 = vec![LOp::Acquire(How::Await, 1)];
                let a2 = vec![LOp::Acquire(How::Await, 2)];
                for ch in [vec![a2.clone(), a1.clone(), a1.clone()], vec![a1.clone(), a1.clone(), a1.clone()], vec![a1.clone(), a2.clone(), vec![LOp::Acquire(How::Try, 1)]]] {
                    for ms in [vec![LOp::AddPermits(2)], vec![LOp::AddPermits(1), LOp::AddPermits(1)], vec![LOp::AddPermits(1), LOp::Close]] {
                        out.push(Program::fork_join(cfg, ms, ch.clone()));
                    }
                }
            }
            let so = thread_seqs(&[LOp::Acquire(How::Owned, 1), LOp::Acquire(How::TryOwned, 1), LOp::Acquire(How::Owned, 2), LOp::Release, LOp::Forget], 3);
            let sa = thread_seqs(&[LOp::Acquire(How::Await, 1), LOp::Release, LOp::IsClosed, LOp::Close], 2);
            for x in &so {
                for y in &sa {
                    if interacts(&[x.clone(), y.clone()]) {
                        out.push(Program::fork_join(cfg, mains[0].clone(), vec![x.clone(), y.clone()]));
                    }
                }
            }
        } else {
            pairs_and_triples(cfg, &a, &[], 2, 0, if p == 0 { 2 } else { 3 }, 0, &mains, &mut out);
            if p == 0 {
                // three waiters: strict arrival order, a large request at the head holds back small ones
                let a1 = vec![LOp::Acquire(How::Await, 1)];
                let a2 = vec![LOp::Acquire(How::Await, 2)];
                out.push(Program::fork_join(cfg, vec![LOp::AddPermits(2)], vec![a2.clone(), a1.clone(), a1.clone()]));
            }
            let so = thread_seqs(&[LOp::Acquire(How::Owned, 1), LOp::Acquire(How::TryOwned, 1), LOp::Acquire(How::Owned, 2), LOp::Release, LOp::Forget], 2);
            let sa = thread_seqs(&[LOp::Acquire(How::Await, 1), LOp::Release, LOp::IsClosed, LOp::Close], 2);
            for x in &so {
                for y in &sa {
                    if interacts(&[x.clone(), y.clone()]) {
                        out.push(Program::fork_join(cfg, mains[0].clone(), vec![x.clone(), y.clone()]));
                    }
                }
            }
            // a request for zero permits
            if p == 1 {
                out.push(Program::fork_join(cfg, vec![], vec![vec![LOp::Acquire(How::Await, 0), LOp::Release], vec![LOp::Acquire(How::Await, 1)]]));
                out.push(Program::fork_join(cfg, vec![], vec![vec![LOp::Acquire(How::Try, 0)], vec![LOp::Acquire(How::Await, 1), LOp::Release]]));
            }
            // forgotten permits are gone for good
            for x in [vec![LOp::Acquire(How::Await, 1), LOp::Forget], vec![LOp::Acquire(How::Try, 1), LOp::Forget], vec![LOp::Acquire(How::Await, 1), LOp::Forget, LOp::Avail]] {
                for y in [vec![LOp::Acquire(How::Await, 1)], vec![LOp::Acquire(How::Try, 1)], vec![LOp::Avail]] {
                    out.push(Program::fork_join(cfg, mains[0].clone(), vec![x.clone(), y.clone()]));
                }
            }
        }
    }
    // cancellation: a queued request is withdrawn when its task is aborted; those behind it move up
    {
        let gg = |ops: &[LOp]| -> Vec<GOp<LOp>> { ops.iter().cloned().map(GOp::Op).collect() };
        let mut shapes: Vec<(Kind, Vec<LOp>, Vec<LOp>, Vec<LOp>, Vec<LOp>)> = vec![
            // (kind, holder, victim, follower, main's operations before the abort)
            (Kind::RwLock, vec![LOp::Read(How::Await)], vec![LOp::Write(How::Await)], vec![LOp::Read(How::Await)], vec![]),
            (Kind::Sem(0), vec![], vec![LOp::Acquire(How::Await, 2)], vec![LOp::Acquire(How::Await, 1)], vec![LOp::AddPermits(1)]),
            (Kind::Sem(1), vec![], vec![LOp::Acquire(How::Await, 2)], vec![LOp::Acquire(How::Try, 1)], vec![]),
            (Kind::Mutex, vec![LOp::Lock(How::Await)], vec![LOp::Lock(How::Await)], vec![LOp::Lock(How::Try)], vec![]),
        ];
        if thorough {
            shapes.push((Kind::Mutex, vec![LOp::Lock(How::Await), LOp::Release], vec![LOp::Lock(How::Await)], vec![LOp::Lock(How::Await)], vec![]));
            shapes.push((Kind::Mutex, vec![LOp::Lock(How::Await)], vec![LOp::Lock(How::Await), LOp::Release], vec![LOp::Lock(How::Try)], vec![]));
            shapes.push((Kind::RwLock, vec![LOp::Read(How::Await), LOp::Release], vec![LOp::Write(How::Await)], vec![LOp::Read(How::Await)], vec![]));
            shapes.push((Kind::Sem(0), vec![LOp::AddPermits(1)], vec![LOp::Acquire(How::Await, 2)], vec![LOp::Acquire(How::Await, 1)], vec![]));
            shapes.push((Kind::Mutex, vec![LOp::Lock(How::Owned), LOp::Release], vec![LOp::Lock(How::Owned)], vec![LOp::Lock(How::Await), LOp::Release], vec![]));
            shapes.push((Kind::RwLock, vec![LOp::Write(How::Await), LOp::Downgrade, LOp::Release], vec![LOp::Write(How::Await)], vec![LOp::Read(How::Await)], vec![]));
            shapes.push((Kind::RwLock2, vec![LOp::Read(How::Await)], vec![LOp::Write(How::Await)], vec![LOp::Read(How::Await), LOp::Release], vec![]));
            shapes.push((Kind::Sem(0), vec![LOp::AddPermits(1), LOp::AddPermits(1)], vec![LOp::Acquire(How::Await, 2)], vec![LOp::Acquire(How::Await, 1), LOp::Release], vec![]));
        }
        for (cfg, holder, victim, follower, mid) in shapes {
            let mut main = vec![GOp::Spawn(1), GOp::Spawn(2), GOp::Spawn(3)];
            main.extend(gg(&mid));
            main.extend([GOp::Abort(2), GOp::Join(2), GOp::Join(1), GOp::Join(3)]);
            out.push(Program {
                cfg,
                threads: vec![main, gg(&holder), gg(&victim), gg(&follower)],
            });
        }
    }
    out.sort_by_key(|p| p.size());
    out
}
