//! Recycling of coroutine stack mappings inside the worker process.
//!
//! Every `Runner::run` creates a fresh continuation pool, and every execution that is cut leaves a
//! continuation that cannot be pooled, so a grid cell costs several `mmap`/`munmap` pairs of a 64 KiB
//! stack.  With 16 workers on a busy (virtualised) machine `munmap` was measured at ~1 ms per call
//! (TLB shootdowns), i.e. > 90 % of the wall time of the check.  The worker therefore keeps the
//! stack-shaped mappings it is asked to unmap and hands them out again for the next stack-shaped
//! `mmap`.  Only calls made from this executable are affected (the definitions below interpose the
//! libc symbols for the executable's own references), only in the worker (`enable()`), and only for
//! the exact request `corosensei::DefaultStack` makes: `mmap(NULL, 64 KiB, PROT_NONE,
//! MAP_PRIVATE|MAP_ANONYMOUS, -1, 0)`.  A recycled region has the layout such a stack has after its
//! `mprotect` (guard page PROT_NONE, rest read-write); its old contents are garbage, exactly as in
//! Shuttle's own continuation pool.

use libc::{c_int, c_void, off_t, size_t};
use std::sync::atomic::{AtomicBool, Ordering};

const STACK_MAP_LEN: usize = 0x10000;
const CAP: usize = 64;

static ENABLED: AtomicBool = AtomicBool::new(false);
// the worker is single-threaded; these are only touched when ENABLED
static mut OWNED: [usize; 256] = [0; 256];
static mut N_OWNED: usize = 0;
static mut FREE: [usize; CAP] = [0; CAP];
static mut N_FREE: usize = 0;

pub fn enable() {
    ENABLED.store(true, Ordering::SeqCst);
}

#[no_mangle]
pub unsafe extern "C" fn mmap(
    addr: *mut c_void,
    len: size_t,
    prot: c_int,
    flags: c_int,
    fd: c_int,
    off: off_t,
) -> *mut c_void {
    let stack_shaped = addr.is_null()
        && len == STACK_MAP_LEN
        && prot == libc::PROT_NONE
        && flags == (libc::MAP_ANONYMOUS | libc::MAP_PRIVATE)
        && fd == -1;
    if stack_shaped && ENABLED.load(Ordering::Relaxed) {
        if N_FREE > 0 {
            N_FREE -= 1;
            return FREE[N_FREE] as *mut c_void;
        }
        let p = libc::syscall(libc::SYS_mmap, addr, len, prot, flags, fd, off) as *mut c_void;
        if p != libc::MAP_FAILED && N_OWNED < 256 {
            OWNED[N_OWNED] = p as usize;
            N_OWNED += 1;
        }
        return p;
    }
    libc::syscall(libc::SYS_mmap, addr, len, prot, flags, fd, off) as *mut c_void
}

#[no_mangle]
pub unsafe extern "C" fn munmap(addr: *mut c_void, len: size_t) -> c_int {
    if len == STACK_MAP_LEN && ENABLED.load(Ordering::Relaxed) {
        let a = addr as usize;
        let mut i = 0;
        while i < N_OWNED {
            if OWNED[i] == a {
                if N_FREE < CAP {
                    FREE[N_FREE] = a;
                    N_FREE += 1;
                    return 0;
                }
                // really unmapped: forget it
                N_OWNED -= 1;
                OWNED[i] = OWNED[N_OWNED];
                break;
            }
            i += 1;
        }
    }
    libc::syscall(libc::SYS_munmap, addr, len) as c_int
}
