//! Family `toneshot`: shuttle-tokio's `sync::oneshot` against tokio's documented contract: at most
//! one value is ever delivered; `send` fails (returning the value) iff the receiver has been closed
//! or dropped; the receiver obtains the value if it was sent, `RecvError` / `Closed` if the sender
//! went away without sending (or the value has been taken, or the receiver closed the channel before
//! a value arrived), `Empty` while the sender is still there and has not sent; `closed().await`
//! completes once the receiver is closed or dropped.
//!
//! Cancellation: a task aborted inside `rx.await` drops the receiver (channel closed, a value already
//! sent is lost, later `send` refused, `closed()` completes); one aborted inside `tx.closed().await`
//! drops the sender (the receiver gets `RecvError`); `time::timeout(&mut rx)` that expires leaves the
//! receiver usable and loses nothing.

use crate::driver::XFamily;
use shuttle_tokio_impl_inner::sync::oneshot;
use std::cell::RefCell;
use std::future::Future;
use std::pin::Pin;
use vx::prog::*;

#[derive(Clone, Debug, PartialEq, Eq, Hash)]
pub enum OOp {
    Send(u8),
    IsClosed,
    /// `tx.closed().await`
    TxClosed,
    DropTx,
    /// `rx.await`
    Recv,
    /// `rx.blocking_recv()`
    BlockingRecv,
    TryRecv,
    Close,
    DropRx,
    /// `time::timeout(1s, &mut rx).await`: the value / `Closed` (receiver used up) or `Elapsed` (the
    /// receiver stays usable)
    TimeoutRecv,
    /// `time::trigger_timeouts(|_| true)` / `time::clear_triggers()`
    TriggerAll,
    ClearTriggers,
    /// `task::yield_now().await`
    Yield,
}

#[derive(Clone, Debug, PartialEq, Eq, Hash, PartialOrd, Ord)]
pub enum ORes {
    Unit,
    Ok,
    /// send gave the value back
    Refused,
    Val(u8),
    /// RecvError / TryRecvError::Closed
    Closed,
    Empty,
    Elapsed,
    Bool(bool),
    /// the handle is gone (ill-formed program)
    Nothing,
}

pub struct OObjs {
    tx: RefCell<Option<oneshot::Sender<u8>>>,
    rx: RefCell<Option<oneshot::Receiver<u8>>>,
}

#[derive(Clone, Copy, Debug, PartialEq, Eq, Hash)]
enum TxSt {
    Alive,
    Sent,
    Dropped,
}

#[derive(Clone, Debug, PartialEq, Eq, Hash)]
pub struct OM {
    slot: Option<u8>,
    tx: TxSt,
    /// the receiver exists and has not called close()
    rx_open: bool,
    rx_alive: bool,
    /// value taken by the receive in progress
    tmp: Option<Result<u8, ()>>,
    /// `time`: a trigger is registered / the receiver's timeout is live / has expired
    triggered: bool,
    live: bool,
    expired: bool,
}

pub struct OneshotFam;

impl Family for OneshotFam {
    type Op = OOp;
    type Res = ORes;
    type Cfg = ();
    type Objs = OObjs;
    type Locals = ();
    type M = OM;
    const NAME: &'static str = "toneshot";
    const ASYNC: bool = true;

    fn make_objs(_cfg: &(), _n: usize) -> OObjs {
        // harness hygiene: the wrapper's trigger table is a std thread-local that survives executions
        shuttle_tokio_impl_inner::time::clear_triggers();
        let (tx, rx) = oneshot::channel::<u8>();
        OObjs {
            tx: RefCell::new(Some(tx)),
            rx: RefCell::new(Some(rx)),
        }
    }
    fn new_locals(_cfg: &(), _t: usize) {}

    fn exec(o: &OObjs, _l: &mut (), _t: usize, op: &OOp) -> ORes {
        match op {
            OOp::Send(v) => match o.tx.borrow_mut().take() {
                None => ORes::Nothing,
                Some(tx) => match tx.send(*v) {
                    Ok(()) => ORes::Ok,
                    Err(_) => ORes::Refused,
                },
            },
            OOp::IsClosed => {
                let h = o.tx.borrow_mut().take();
                match h {
                    None => ORes::Nothing,
                    Some(tx) => {
                        let r = tx.is_closed();
                        *o.tx.borrow_mut() = Some(tx);
                        ORes::Bool(r)
                    }
                }
            }
            OOp::DropTx => match o.tx.borrow_mut().take() {
                None => ORes::Nothing,
                Some(tx) => {
                    drop(tx);
                    ORes::Unit
                }
            },
            OOp::BlockingRecv => {
                let h = o.rx.borrow_mut().take();
                match h {
                    None => ORes::Nothing,
                    Some(rx) => match rx.blocking_recv() {
                        Ok(v) => ORes::Val(v),
                        Err(_) => ORes::Closed,
                    },
                }
            }
            OOp::TryRecv => {
                let h = o.rx.borrow_mut().take();
                match h {
                    None => ORes::Nothing,
                    Some(mut rx) => {
                        let r = rx.try_recv();
                        *o.rx.borrow_mut() = Some(rx);
                        match r {
                            Ok(v) => ORes::Val(v),
                            Err(oneshot::error::TryRecvError::Empty) => ORes::Empty,
                            Err(oneshot::error::TryRecvError::Closed) => ORes::Closed,
                        }
                    }
                }
            }
            OOp::Close => {
                let h = o.rx.borrow_mut().take();
                match h {
                    None => ORes::Nothing,
                    Some(mut rx) => {
                        rx.close();
                        *o.rx.borrow_mut() = Some(rx);
                        ORes::Unit
                    }
                }
            }
            OOp::DropRx => match o.rx.borrow_mut().take() {
                None => ORes::Nothing,
                Some(rx) => {
                    drop(rx);
                    ORes::Unit
                }
            },
            OOp::TriggerAll => {
                shuttle_tokio_impl_inner::time::trigger_timeouts(|_| true);
                ORes::Unit
            }
            OOp::ClearTriggers => {
                shuttle_tokio_impl_inner::time::clear_triggers();
                ORes::Unit
            }
            OOp::Recv | OOp::TxClosed | OOp::TimeoutRecv | OOp::Yield => unreachable!("async operation in a synchronous context"),
        }
    }

    fn exec_async<'a>(o: &'a OObjs, l: &'a mut (), t: usize, op: &'a OOp) -> Pin<Box<dyn Future<Output = ORes> + 'a>> {
        Box::pin(async move {
            match op {
                OOp::Recv => {
                    let h = o.rx.borrow_mut().take();
                    match h {
                        None => ORes::Nothing,
                        Some(rx) => match rx.await {
                            Ok(v) => ORes::Val(v),
                            Err(_) => ORes::Closed,
                        },
                    }
                }
                OOp::TimeoutRecv => {
                    let h = o.rx.borrow_mut().take();
                    match h {
                        None => ORes::Nothing,
                        Some(mut rx) => match shuttle_tokio_impl_inner::time::timeout(std::time::Duration::from_secs(1), &mut rx).await {
                            Ok(Ok(v)) => ORes::Val(v),
                            Ok(Err(_)) => ORes::Closed,
                            Err(_) => {
                                *o.rx.borrow_mut() = Some(rx);
                                ORes::Elapsed
                            }
                        },
                    }
                }
                OOp::Yield => {
                    shuttle_tokio_impl_inner::task::yield_now().await;
                    ORes::Unit
                }
                OOp::TxClosed => {
                    let h = o.tx.borrow_mut().take();
                    match h {
                        None => ORes::Nothing,
                        Some(mut tx) => {
                            tx.closed().await;
                            *o.tx.borrow_mut() = Some(tx);
                            ORes::Unit
                        }
                    }
                }
                _ => Self::exec(o, l, t, op),
            }
        })
    }

    /// every operation of the wrapper passes through `yield_now`
    fn yields(_op: &OOp) -> Option<bool> {
        None
    }
    /// A task can be cancelled where it is suspended: in `rx.await` and `tx.closed().await` once
    /// they have been polled and found nothing (`blocking_recv` blocks inside the poll).
    fn m_abortable(op: &OOp, phase: u8) -> bool {
        match op {
            OOp::Recv | OOp::TimeoutRecv => phase == 1,
            OOp::Yield => true,
            // `closed()` ends with a `yield_now().await`: it is suspended once more after the
            // receiver has gone, a point the model does not tell apart from "just called"
            OOp::TxClosed => true,
            _ => false,
        }
    }
    /// The cancelled task's future owns the half it was awaiting on: cancelling `rx.await` drops the
    /// receiver (tokio: the channel is closed, a value already sent is lost, `send` is refused from
    /// then on, `closed()` completes); cancelling `tx.closed().await` drops the sender without a
    /// value (the receiver gets `RecvError`).  Neither destructor has a scheduling point.
    fn m_cancel_begin(m: &OM, _t: usize, op: &OOp, _phase: u8) -> Option<Vec<MStep<OM, ()>>> {
        let mut n = m.clone();
        match op {
            OOp::Recv | OOp::TimeoutRecv => {
                n.rx_open = false;
                n.rx_alive = false;
                n.slot = None;
                n.live = false;
                n.expired = false;
            }
            OOp::TxClosed => {
                n.tx = TxSt::Dropped;
            }
            _ => return None,
        }
        Some(vec![MStep::Done(n, ())])
    }
    fn objects_of(_op: &OOp) -> Vec<u32> {
        vec![0xC30]
    }
    fn m_init(_cfg: &(), _n: usize) -> OM {
        OM {
            slot: None,
            tx: TxSt::Alive,
            rx_open: true,
            rx_alive: true,
            tmp: None,
            triggered: false,
            live: false,
            expired: false,
        }
    }

    fn m_step(m: &OM, _t: usize, op: &OOp, phase: u8, _strict: bool) -> Vec<MStep<OM, ORes>> {
        let mut n = m.clone();
        match op {
            OOp::Send(v) => {
                if n.tx != TxSt::Alive {
                    return vec![MStep::Done(n, ORes::Nothing)];
                }
                if !n.rx_open {
                    // the sender is consumed either way
                    n.tx = TxSt::Dropped;
                    return vec![MStep::Done(n, ORes::Refused)];
                }
                n.slot = Some(*v);
                n.tx = TxSt::Sent;
                vec![MStep::Done(n, ORes::Ok)]
            }
            OOp::IsClosed => {
                if n.tx != TxSt::Alive {
                    return vec![MStep::Done(n, ORes::Nothing)];
                }
                let c = !n.rx_open;
                vec![MStep::Done(n, ORes::Bool(c))]
            }
            OOp::TxClosed => {
                if n.tx != TxSt::Alive {
                    return vec![MStep::Done(n, ORes::Nothing)];
                }
                if !n.rx_open {
                    vec![MStep::Done(n, ORes::Unit)]
                } else if phase == 0 {
                    vec![MStep::Cont(n, 1)]
                } else {
                    vec![]
                }
            }
            OOp::DropTx => {
                if n.tx != TxSt::Alive {
                    return vec![MStep::Done(n, ORes::Nothing)];
                }
                n.tx = TxSt::Dropped;
                vec![MStep::Done(n, ORes::Unit)]
            }
            OOp::Recv | OOp::BlockingRecv => {
                if phase == 2 {
                    // the receiver is consumed
                    let r = n.tmp.take().expect("received");
                    return vec![MStep::Done(n, match r {
                        Ok(v) => ORes::Val(v),
                        Err(()) => ORes::Closed,
                    })];
                }
                if !n.rx_alive {
                    return vec![MStep::Done(n, ORes::Nothing)];
                }
                if let Some(v) = n.slot.take() {
                    n.tmp = Some(Ok(v));
                    n.rx_alive = false;
                    n.rx_open = false;
                    vec![MStep::Cont(n, 2)]
                } else if n.tx != TxSt::Alive || !n.rx_open {
                    // the sender is gone without a value (or the value was taken before, or the
                    // receiver closed the channel while it was empty)
                    n.tmp = Some(Err(()));
                    n.rx_alive = false;
                    n.rx_open = false;
                    vec![MStep::Cont(n, 2)]
                } else if phase == 0 {
                    vec![MStep::Cont(n, 1)]
                } else {
                    vec![]
                }
            }
            // `Timeout::poll` looks at the expiry first, then polls the receiver; with the expiry and
            // the value both there the wrapper says Elapsed (the value stays in the channel), tokio's
            // own `timeout` polls first and would deliver it — the contract-only relation accepts either
            OOp::TimeoutRecv => {
                if phase == 2 {
                    let r = n.tmp.take().expect("received");
                    n.live = false;
                    n.expired = false;
                    return vec![MStep::Done(n, match r {
                        Ok(v) => ORes::Val(v),
                        Err(()) => ORes::Closed,
                    })];
                }
                if !n.rx_alive {
                    return vec![MStep::Done(n, ORes::Nothing)];
                }
                if phase == 0 {
                    if n.triggered {
                        // born expired: the receiver is never polled
                        return vec![MStep::Done(n, ORes::Elapsed)];
                    }
                    n.live = true;
                    n.expired = false;
                }
                let mut out = Vec::new();
                if n.expired {
                    let mut e = n.clone();
                    e.live = false;
                    e.expired = false;
                    out.push(MStep::Done(e, ORes::Elapsed));
                    if _strict {
                        return out;
                    }
                }
                if let Some(v) = n.slot.take() {
                    n.tmp = Some(Ok(v));
                    n.rx_alive = false;
                    n.rx_open = false;
                    out.push(MStep::Cont(n, 2));
                } else if n.tx != TxSt::Alive || !n.rx_open {
                    n.tmp = Some(Err(()));
                    n.rx_alive = false;
                    n.rx_open = false;
                    out.push(MStep::Cont(n, 2));
                } else if phase == 0 {
                    out.push(MStep::Cont(n, 1));
                }
                out
            }
            OOp::TriggerAll => {
                n.triggered = true;
                if n.live {
                    n.expired = true;
                }
                vec![MStep::Done(n, ORes::Unit)]
            }
            OOp::ClearTriggers => {
                n.triggered = false;
                vec![MStep::Done(n, ORes::Unit)]
            }
            OOp::Yield => vec![MStep::Done(n, ORes::Unit)],
            OOp::TryRecv => {
                if !n.rx_alive {
                    return vec![MStep::Done(n, ORes::Nothing)];
                }
                if let Some(v) = n.slot.take() {
                    vec![MStep::Done(n, ORes::Val(v))]
                } else if n.tx != TxSt::Alive || !n.rx_open {
                    vec![MStep::Done(n, ORes::Closed)]
                } else {
                    vec![MStep::Done(n, ORes::Empty)]
                }
            }
            OOp::Close => {
                if !n.rx_alive {
                    return vec![MStep::Done(n, ORes::Nothing)];
                }
                n.rx_open = false;
                vec![MStep::Done(n, ORes::Unit)]
            }
            OOp::DropRx => {
                if !n.rx_alive {
                    return vec![MStep::Done(n, ORes::Nothing)];
                }
                n.rx_open = false;
                n.rx_alive = false;
                n.slot = None;
                vec![MStep::Done(n, ORes::Unit)]
            }
        }
    }
}

impl XFamily for OneshotFam {}

// ---------------------------------------------------------------------------------------------

fn tx_seqs(k: usize) -> Vec<Vec<OOp>> {
    // prefix of observers, then at most one terminal operation
    let pre: Vec<Vec<OOp>> = vec![vec![], vec![OOp::IsClosed], vec![OOp::TxClosed], vec![OOp::IsClosed, OOp::IsClosed], vec![OOp::TxClosed, OOp::IsClosed]];
    let term: Vec<Vec<OOp>> = vec![vec![], vec![OOp::Send(7)], vec![OOp::DropTx]];
    let mut out = Vec::new();
    for p in &pre {
        for t in &term {
            let mut s = p.clone();
            s.extend(t.clone());
            if !s.is_empty() && s.len() <= k {
                out.push(s);
            }
        }
    }
    out
}

fn rx_seqs(k: usize, blocking: bool) -> Vec<Vec<OOp>> {
    let pre: Vec<Vec<OOp>> = vec![
        vec![],
        vec![OOp::TryRecv],
        vec![OOp::Close],
        vec![OOp::TryRecv, OOp::TryRecv],
        vec![OOp::Close, OOp::TryRecv],
        vec![OOp::TryRecv, OOp::Close],
        vec![OOp::TryRecv, OOp::Close, OOp::TryRecv],
    ];
    let term: Vec<Vec<OOp>> = vec![vec![], vec![if blocking { OOp::BlockingRecv } else { OOp::Recv }], vec![OOp::DropRx]];
    let mut out = Vec::new();
    for p in &pre {
        for t in &term {
            let mut s = p.clone();
            s.extend(t.clone());
            if !s.is_empty() && s.len() <= k {
                out.push(s);
            }
        }
    }
    out
}

pub fn program_set(set: &str) -> Vec<Program<OneshotFam>> {
    let thorough = set == "thorough";
    let k = if thorough { 4 } else { 3 };
    let mut out = Vec::new();
    let txs = tx_seqs(k);
    for blocking in [false, true] {
        let rxs = rx_seqs(k, blocking);
        for a in &txs {
            for b in &rxs {
                if a.len() + b.len() > if thorough { 7 } else { 5 } {
                    continue;
                }
                // both in children
                out.push(Program::fork_join((), vec![], vec![a.clone(), b.clone()]));
                if !blocking {
                    // main holds one side
                    out.push(Program::fork_join((), a.clone(), vec![b.clone()]));
                    out.push(Program::fork_join((), b.clone(), vec![a.clone()]));
                } else if thorough {
                    out.push(Program::fork_join((), a.clone(), vec![b.clone()]));
                }
            }
        }
    }
    // ---- cancellation: the receiver task aborted while it awaits the value — before, after or
    // while the sender sends / drops / waits in closed(); the sender task aborted inside closed()
    let g = |v: &[OOp]| v.iter().cloned().map(GOp::Op).collect::<Vec<_>>();
    let rx_victims: Vec<Vec<OOp>> = vec![vec![OOp::Recv], vec![OOp::TryRecv, OOp::Recv]];
    let tx_tasks: Vec<Vec<OOp>> = vec![
        vec![OOp::Send(7)],
        vec![OOp::DropTx],
        vec![OOp::TxClosed],
        vec![OOp::TxClosed, OOp::Send(7)],
        vec![OOp::IsClosed, OOp::Send(7)],
        vec![OOp::TxClosed, OOp::IsClosed],
    ];
    for v in &rx_victims {
        for tx in &tx_tasks {
            // the sender is a task of its own
            let main = vec![GOp::Spawn(1), GOp::Spawn(2), GOp::Abort(1), GOp::Join(1), GOp::Join(2)];
            out.push(Program { cfg: (), threads: vec![main, g(v), g(tx)] });
            // main holds the sender: before the abort / after the victim is gone
            let mut m1 = vec![GOp::Spawn(1), GOp::Abort(1), GOp::Join(1)];
            m1.extend(g(tx));
            out.push(Program { cfg: (), threads: vec![m1, g(v)] });
            if tx.len() == 1 && !matches!(tx[0], OOp::TxClosed) {
                let mut m2 = vec![GOp::Spawn(1)];
                m2.extend(g(tx));
                m2.extend([GOp::Abort(1), GOp::Join(1)]);
                out.push(Program { cfg: (), threads: vec![m2, g(v)] });
            }
            if thorough {
                // the abort comes from a third task while main uses the sender
                let m3 = {
                    let mut m = vec![GOp::Spawn(1), GOp::Spawn(2)];
                    m.extend(g(tx));
                    m.extend([GOp::Join(2), GOp::Join(1)]);
                    m
                };
                out.push(Program { cfg: (), threads: vec![m3, g(v), vec![GOp::Abort(1)]] });
            }
        }
    }
    // ---- cancellation by `time::timeout` + `trigger_timeouts` (`timeout(&mut rx)`: after Elapsed the
    // receiver is still there and a value sent meanwhile must still arrive).  No execution of these
    // programs may fail (see fam_task.rs on the timeout table): main triggers before it joins.
    for rxs in [
        vec![OOp::TimeoutRecv],
        vec![OOp::TimeoutRecv, OOp::TryRecv],
        vec![OOp::TimeoutRecv, OOp::TimeoutRecv],
        vec![OOp::TimeoutRecv, OOp::TryRecv, OOp::DropRx],
    ] {
        for mid in [vec![OOp::Send(7)], vec![OOp::DropTx], vec![OOp::IsClosed], vec![OOp::IsClosed, OOp::Send(7)]] {
            // main holds the sender (spawning has no scheduling point: yield so that the child can wait)
            let mut m = vec![GOp::Spawn(1), GOp::Op(OOp::Yield)];
            m.extend(g(&mid));
            m.extend([GOp::Op(OOp::Yield), GOp::Op(OOp::TriggerAll), GOp::Join(1), GOp::Op(OOp::ClearTriggers), GOp::Op(OOp::IsClosed)]);
            out.push(Program { cfg: (), threads: vec![m, g(&rxs)] });
            // the sender is a task of its own
            let m2 = vec![GOp::Spawn(1), GOp::Spawn(2), GOp::Op(OOp::Yield), GOp::Op(OOp::TriggerAll), GOp::Join(1), GOp::Join(2), GOp::Op(OOp::ClearTriggers)];
            out.push(Program { cfg: (), threads: vec![m2, g(&rxs), g(&mid)] });
            if thorough {
                // ... and the receiver task is aborted as well
                let m3 = vec![GOp::Spawn(1), GOp::Spawn(2), GOp::Op(OOp::Yield), GOp::Abort(1), GOp::Op(OOp::TriggerAll), GOp::Join(1), GOp::Join(2), GOp::Op(OOp::ClearTriggers)];
                out.push(Program { cfg: (), threads: vec![m3, g(&rxs), g(&mid)] });
            }
        }
    }
    for v in [vec![OOp::TxClosed], vec![OOp::IsClosed, OOp::TxClosed], vec![OOp::TxClosed, OOp::Send(7)]] {
        for rx in [vec![OOp::Recv], vec![OOp::TryRecv, OOp::Recv], vec![OOp::TryRecv], vec![OOp::Close, OOp::Recv], vec![OOp::DropRx]] {
            let main = vec![GOp::Spawn(1), GOp::Spawn(2), GOp::Abort(1), GOp::Join(1), GOp::Join(2)];
            out.push(Program { cfg: (), threads: vec![main, g(&v), g(&rx)] });
            let mut m1 = vec![GOp::Spawn(1), GOp::Abort(1), GOp::Join(1)];
            m1.extend(g(&rx));
            out.push(Program { cfg: (), threads: vec![m1, g(&v)] });
        }
    }
    out.sort_by_key(|p| p.size());
    out
}
