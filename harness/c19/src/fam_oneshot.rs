//! Family `toneshot`: shuttle-tokio's `sync::oneshot` against tokio's documented contract: at most
//! one value is ever delivered; `send` fails (returning the value) iff the receiver has been closed
//! or dropped; the receiver obtains the value if it was sent, `RecvError` / `Closed` if the sender
//! went away without sending (or the value has been taken, or the receiver closed the channel before
//! a value arrived), `Empty` while the sender is still there and has not sent; `closed().await`
//! completes once the receiver is closed or dropped.

use crate::driver::XFamily;
use shuttle_tokio_impl_inner::sync::oneshot;
use std::cell::RefCell;
use std::future::Future;
use std::pin::Pin;
use vx::prog::*;

#[derive(Clone, Debug, PartialEq, Eq, Hash)]
pub enum OOp {
    Send(u8),
    IsClosed,
    /// `tx.closed().await`
    TxClosed,
    DropTx,
    /// `rx.await`
    Recv,
    /// `rx.blocking_recv()`
    BlockingRecv,
    TryRecv,
    Close,
    DropRx,
}

#[derive(Clone, Debug, PartialEq, Eq, Hash, PartialOrd, Ord)]
pub enum ORes {
    Unit,
    Ok,
    /// send gave the value back
    Refused,
    Val(u8),
    /// RecvError / TryRecvError::Closed
    Closed,
    Empty,
    Bool(bool),
    /// the handle is gone (ill-formed program)
    Nothing,
}

pub struct OObjs {
    tx: RefCell<Option<oneshot::Sender<u8>>>,
    rx: RefCell<Option<oneshot::Receiver<u8>>>,
}

#[derive(Clone, Copy, Debug, PartialEq, Eq, Hash)]
enum TxSt {
    Alive,
    Sent,
    Dropped,
}

#[derive(Clone, Debug, PartialEq, Eq, Hash)]
pub struct OM {
    slot: Option<u8>,
    tx: TxSt,
    /// the receiver exists and has not called close()
    rx_open: bool,
    rx_alive: bool,
    /// value taken by the receive in progress
    tmp: Option<Result<u8, ()>>,
}

pub struct OneshotFam;

impl Family for OneshotFam {
    type Op = OOp;
    type Res = ORes;
    type Cfg = ();
    type Objs = OObjs;
    type Locals = ();
    type M = OM;
    const NAME: &'static str = "toneshot";
    const ASYNC: bool = true;

    fn make_objs(_cfg: &(), _n: usize) -> OObjs {
        let (tx, rx) = oneshot::channel::<u8>();
        OObjs {
            tx: RefCell::new(Some(tx)),
            rx: RefCell::new(Some(rx)),
        }
    }
    fn new_locals(_cfg: &(), _t: usize) {}

    fn exec(o: &OObjs, _l: &mut (), _t: usize, op: &OOp) -> ORes {
        match op {
            OOp::Send(v) => match o.tx.borrow_mut().take() {
                None => ORes::Nothing,
                Some(tx) => match tx.send(*v) {
                    Ok(()) => ORes::Ok,
                    Err(_) => ORes::Refused,
                },
            },
            OOp::IsClosed => {
                let h = o.tx.borrow_mut().take();
                match h {
                    None => ORes::Nothing,
                    Some(tx) => {
                        let r = tx.is_closed();
                        *o.tx.borrow_mut() = Some(tx);
                        ORes::Bool(r)
                    }
                }
            }
            OOp::DropTx => match o.tx.borrow_mut().take() {
                None => ORes::Nothing,
                Some(tx) => {
                    drop(tx);
                    ORes::Unit
                }
            },
            OOp::BlockingRecv => {
                let h = o.rx.borrow_mut().take();
                match h {
                    None => ORes::Nothing,
                    Some(rx) => match rx.blocking_recv() {
                        Ok(v) => ORes::Val(v),
                        Err(_) => ORes::Closed,
                    },
                }
            }
            OOp::TryRecv => {
                let h = o.rx.borrow_mut().take();
                match h {
                    None => ORes::Nothing,
                    Some(mut rx) => {
                        let r = rx.try_recv();
                        *o.rx.borrow_mut() = Some(rx);
                        match r {
                            Ok(v) => ORes::Val(v),
                            Err(oneshot::error::TryRecvError::Empty) => ORes::Empty,
                            Err(oneshot::error::TryRecvError::Closed) => ORes::Closed,
                        }
                    }
                }
            }
            OOp::Close => {
                let h = o.rx.borrow_mut().take();
                match h {
                    None => ORes::Nothing,
                    Some(mut rx) => {
                        rx.close();
                        *o.rx.borrow_mut() = Some(rx);
                        ORes::Unit
                    }
                }
            }
            OOp::DropRx => match o.rx.borrow_mut().take() {
                None => ORes::Nothing,
                Some(rx) => {
                    drop(rx);
                    ORes::Unit
                }
            },
            OOp::Recv | OOp::TxClosed => unreachable!("async operation in a synchronous context"),
        }
    }

    fn exec_async<'a>(o: &'a OObjs, l: &'a mut (), t: usize, op: &'a OOp) -> Pin<Box<dyn Future<Output = ORes> + 'a>> {
        Box::pin(async move {
            match op {
                OOp::Recv => {
                    let h = o.rx.borrow_mut().take();
                    match h {
                        None => ORes::Nothing,
                        Some(rx) => match rx.await {
                            Ok(v) => ORes::Val(v),
                            Err(_) => ORes::Closed,
                        },
                    }
                }
                OOp::TxClosed => {
                    let h = o.tx.borrow_mut().take();
                    match h {
                        None => ORes::Nothing,
                        Some(mut tx) => {
                            tx.closed().await;
                            *o.tx.borrow_mut() = Some(tx);
                            ORes::Unit
                        }
                    }
                }
                _ => Self::exec(o, l, t, op),
            }
        })
    }

    /// every operation of the wrapper passes through `yield_now`
    fn yields(_op: &OOp) -> Option<bool> {
        None
    }
    fn m_abortable(_op: &OOp, _phase: u8) -> bool {
        false
    }
    fn objects_of(_op: &OOp) -> Vec<u32> {
        vec![0xC30]
    }
    fn m_init(_cfg: &(), _n: usize) -> OM {
        OM {
            slot: None,
            tx: TxSt::Alive,
            rx_open: true,
            rx_alive: true,
            tmp: None,
        }
    }

    fn m_step(m: &OM, _t: usize, op: &OOp, phase: u8, _strict: bool) -> Vec<MStep<OM, ORes>> {
        let mut n = m.clone();
        match op {
            OOp::Send(v) => {
                if n.tx != TxSt::Alive {
                    return vec![MStep::Done(n, ORes::Nothing)];
                }
                if !n.rx_open {
                    // the sender is consumed either way
                    n.tx = TxSt::Dropped;
                    return vec![MStep::Done(n, ORes::Refused)];
                }
                n.slot = Some(*v);
                n.tx = TxSt::Sent;
                vec![MStep::Done(n, ORes::Ok)]
            }
            OOp::IsClosed => {
                if n.tx != TxSt::Alive {
                    return vec![MStep::Done(n, ORes::Nothing)];
                }
                let c = !n.rx_open;
                vec![MStep::Done(n, ORes::Bool(c))]
            }
            OOp::TxClosed => {
                if n.tx != TxSt::Alive {
                    return vec![MStep::Done(n, ORes::Nothing)];
                }
                if !n.rx_open {
                    vec![MStep::Done(n, ORes::Unit)]
                } else if phase == 0 {
                    vec![MStep::Cont(n, 1)]
                } else {
                    vec![]
                }
            }
            OOp::DropTx => {
                if n.tx != TxSt::Alive {
                    return vec![MStep::Done(n, ORes::Nothing)];
                }
                n.tx = TxSt::Dropped;
                vec![MStep::Done(n, ORes::Unit)]
            }
            OOp::Recv | OOp::BlockingRecv => {
                if phase == 2 {
                    // the receiver is consumed
                    let r = n.tmp.take().expect("received");
                    return vec![MStep::Done(n, match r {
                        Ok(v) => ORes::Val(v),
                        Err(()) => ORes::Closed,
                    })];
                }
                if !n.rx_alive {
                    return vec![MStep::Done(n, ORes::Nothing)];
                }
                if let Some(v) = n.slot.take() {
                    n.tmp = Some(Ok(v));
                    n.rx_alive = false;
                    n.rx_open = false;
                    vec![MStep::Cont(n, 2)]
                } else if n.tx != TxSt::Alive || !n.rx_open {
                    // the sender is gone without a value (or the value was taken before, or the
                    // receiver closed the channel while it was empty)
                    n.tmp = Some(Err(()));
                    n.rx_alive = false;
                    n.rx_open = false;
                    vec![MStep::Cont(n, 2)]
                } else if phase == 0 {
                    vec![MStep::Cont(n, 1)]
                } else {
                    vec![]
                }
            }
            OOp::TryRecv => {
                if !n.rx_alive {
                    return vec![MStep::Done(n, ORes::Nothing)];
                }
                if let Some(v) = n.slot.take() {
                    vec![MStep::Done(n, ORes::Val(v))]
                } else if n.tx != TxSt::Alive || !n.rx_open {
                    vec![MStep::Done(n, ORes::Closed)]
                } else {
                    vec![MStep::Done(n, ORes::Empty)]
                }
            }
            OOp::Close => {
                if !n.rx_alive {
                    return vec![MStep::Done(n, ORes::Nothing)];
                }
                n.rx_open = false;
                vec![MStep::Done(n, ORes::Unit)]
            }
            OOp::DropRx => {
                if !n.rx_alive {
                    return vec![MStep::Done(n, ORes::Nothing)];
                }
                n.rx_open = false;
                n.rx_alive = false;
                n.slot = None;
                vec![MStep::Done(n, ORes::Unit)]
            }
        }
    }
}

impl XFamily for OneshotFam {}

// ---------------------------------------------------------------------------------------------

fn tx_seqs(k: usize) -> Vec<Vec<OOp>> {
    // prefix of observers, then at most one terminal operation
    let pre: Vec<Vec<OOp>> = vec![vec![], vec![OOp::IsClosed], vec![OOp::TxClosed], vec![OOp::IsClosed, OOp::IsClosed], vec![OOp::TxClosed, OOp::IsClosed]];
    let term: Vec<Vec<OOp>> = vec![vec![], vec![OOp::Send(7)], vec![OOp::DropTx]];
    let mut out = Vec::new();
    for p in &pre {
        for t in &term {
            let mut s = p.clone();
            s.extend(t.clone());
            if !s.is_empty() && s.len() <= k {
                out.push(s);
            }
        }
    }
    out
}

fn rx_seqs(k: usize, blocking: bool) -> Vec<Vec<OOp>> {
    let pre: Vec<Vec<OOp>> = vec![
        vec![],
        vec![OOp::TryRecv],
        vec![OOp::Close],
        vec![OOp::TryRecv, OOp::TryRecv],
        vec![OOp::Close, OOp::TryRecv],
        vec![OOp::TryRecv, OOp::Close],
        vec![OOp::TryRecv, OOp::Close, OOp::TryRecv],
    ];
    let term: Vec<Vec<OOp>> = vec![vec![], vec![if blocking { OOp::BlockingRecv } else { OOp::Recv }], vec![OOp::DropRx]];
    let mut out = Vec::new();
    for p in &pre {
        for t in &term {
            let mut s = p.clone();
            s.extend(t.clone());
            if !s.is_empty() && s.len() <= k {
                out.push(s);
            }
        }
    }
    out
}

pub fn program_set(set: &str) -> Vec<Program<OneshotFam>> {
    let thorough = set == "thorough";
    let k = if thorough { 4 } else { 3 };
    let mut out = Vec::new();
    let txs = tx_seqs(k);
    for blocking in [false, true] {
        let rxs = rx_seqs(k, blocking);
        for a in &txs {
            for b in &rxs {
                if a.len() + b.len() > if thorough { 7 } else { 5 } {
                    continue;
                }
                // both in children
                out.push(Program::fork_join((), vec![], vec![a.clone(), b.clone()]));
                if !blocking {
                    // main holds one side
                    out.push(Program::fork_join((), a.clone(), vec![b.clone()]));
                    out.push(Program::fork_join((), b.clone(), vec![a.clone()]));
                } else if thorough {
                    out.push(Program::fork_join((), a.clone(), vec![b.clone()]));
                }
            }
        }
    }
    out.sort_by_key(|p| p.size());
    out
}
