//! Family `twatch`: shuttle-tokio's `sync::watch` against tokio's documented contract.
//!
//! tokio::sync::watch (docs): the channel holds one value; `send` replaces it and marks it unseen
//! for every receiver, failing iff there is no receiver; the initial value counts as seen.
//! `changed().await` completes as soon as the receiver's latest look is older than the current
//! value, marking it seen, and fails once every sender is gone and nothing is unseen; `borrow`
//! returns the latest value, `borrow_and_update` additionally marks it seen; `has_changed` reports
//! unseen-ness and fails once every sender is gone; `Sender::closed().await` completes when the
//! last receiver is gone.  "Outstanding borrows hold a read lock on the inner value": a send waits
//! for borrows in progress and vice versa (first come first served).
//! `send_modify` / `send_replace` are `send` without the receiver-count check; `wait_for(f)` looks at
//! the current value first (even if seen), then at every change, and fails once the channel is closed
//! and the last value did not satisfy `f`.
//!
//! Cancel safety (tokio: `changed`, `wait_for`, `closed` are cancel safe): a task aborted inside one
//! of them — or a `changed()` dropped by an expired `time::timeout` — leaves no request behind and
//! marks nothing seen; the aborted task's own handle is dropped with its future (last receiver gone ⇒
//! `closed()` completes and `send` is refused; last sender gone ⇒ the channel closes and every
//! `changed()` wakes), the wake-ups being scheduling steps of the cancelled task's destructor.

use crate::driver::XFamily;
use crate::fam_lock::{Acq, FairSem};
use shuttle_tokio_impl_inner::sync::watch;
use std::cell::RefCell;
use std::future::Future;
use std::pin::Pin;
use vx::prog::*;

#[derive(Clone, Debug, PartialEq, Eq, Hash)]
pub enum WOp {
    Send(u8),
    /// `tx.send_modify(|x| *x = v)` (no receiver-count check)
    SendModify(u8),
    /// `tx.send_replace(v)` → the previous value
    SendReplace(u8),
    /// `*tx.borrow()`
    TxBorrow,
    /// `tx.is_closed()`
    TxIsClosed,
    /// `tx.closed().await`
    TxClosed,
    DropTx,
    /// `rx.changed().await`
    Changed,
    /// `*rx.wait_for(|x| *x == v).await?`
    WaitFor(u8),
    /// `*rx.borrow_and_update()`
    BorrowAndUpdate,
    /// `*rx.borrow()`
    Borrow,
    HasChanged,
    DropRx,
    /// `time::timeout(1s, rx.changed()).await`: `Ok` / `Err` / `Elapsed`
    TimeoutChanged,
    /// `time::trigger_timeouts(|_| true)` / `time::clear_triggers()`
    TriggerAll,
    ClearTriggers,
    /// `task::yield_now().await`
    Yield,
}

#[derive(Clone, Debug, PartialEq, Eq, Hash, PartialOrd, Ord)]
pub enum WRes {
    Unit,
    Ok,
    Err,
    Elapsed,
    Val(u8),
    Bool(bool),
    Nothing,
}

#[derive(Clone, Debug)]
pub struct WCfg {
    pub tx_threads: Vec<usize>,
    pub rx_threads: Vec<usize>,
}

pub struct WObjs {
    tx: RefCell<Vec<Option<watch::Sender<u8>>>>,
    rx: RefCell<Vec<Option<watch::Receiver<u8>>>>,
}

/// symbolic "all permits" of the lock around the value
const MANY: u16 = 1000;

#[derive(Clone, Debug, PartialEq, Eq, Hash)]
pub struct WM {
    value: u8,
    version: u8,
    tx_alive: Vec<bool>,
    /// the last sender is gone
    closed: bool,
    rx_alive: Vec<bool>,
    seen: Vec<u8>,
    /// the read-write lock around the value
    lock: FairSem,
    /// per thread: 0 = not waiting, 1 = registered for a change notification, 2 = notified, 3 = woken
    rxw: Vec<u8>,
    /// same for `Sender::closed()`
    txw: Vec<u8>,
    /// wake-ups a notifier still has to deliver: (notifier, target, target is a receiver)
    to_wake: Vec<(u8, u8, bool)>,
    /// value read by the borrow in progress
    tmp: Vec<Option<u8>>,
    /// `wait_for` in progress has seen the channel closed (its local `closed` flag)
    wfc: Vec<bool>,
    /// `time`: a trigger is registered / the thread has a live timeout / which has expired
    triggered: bool,
    live: Vec<bool>,
    expired: Vec<bool>,
}

pub struct WatchFam;

impl WM {
    fn rx_count(&self) -> usize {
        self.rx_alive.iter().filter(|a| **a).count()
    }
    /// notify_waiters on the receiver side / sender side by thread `t`
    fn notify(&mut self, t: u8, rx_side: bool) {
        let v = if rx_side { &mut self.rxw } else { &mut self.txw };
        for (i, w) in v.iter_mut().enumerate() {
            if *w == 1 {
                *w = 2;
                self.to_wake.push((t, i as u8, rx_side));
            }
        }
        self.to_wake.sort();
    }
    /// deliver one of `t`'s pending wake-ups: all possible successors (empty = none pending)
    fn deliver(&self, t: u8) -> Vec<WM> {
        let mut out = Vec::new();
        for i in 0..self.to_wake.len() {
            if self.to_wake[i].0 != t {
                continue;
            }
            let mut n = self.clone();
            let (_, w, rx_side) = n.to_wake.remove(i);
            let v = if rx_side { &mut n.rxw } else { &mut n.txw };
            if v[w as usize] == 2 {
                v[w as usize] = 3;
            }
            out.push(n);
        }
        out
    }
    fn pending(&self, t: u8) -> bool {
        self.to_wake.iter().any(|x| x.0 == t)
    }
}

fn take_tx(o: &WObjs, t: usize) -> Option<watch::Sender<u8>> {
    o.tx.borrow_mut()[t].take()
}
fn take_rx(o: &WObjs, t: usize) -> Option<watch::Receiver<u8>> {
    o.rx.borrow_mut()[t].take()
}

impl Family for WatchFam {
    type Op = WOp;
    type Res = WRes;
    type Cfg = WCfg;
    type Objs = WObjs;
    type Locals = ();
    type M = WM;
    const NAME: &'static str = "twatch";
    const ASYNC: bool = true;

    fn make_objs(cfg: &WCfg, n: usize) -> WObjs {
        // harness hygiene: the wrapper's trigger table is a std thread-local that survives executions
        shuttle_tokio_impl_inner::time::clear_triggers();
        let (tx, rx) = watch::channel::<u8>(0);
        let mut txs: Vec<Option<watch::Sender<u8>>> = (0..n).map(|_| None).collect();
        let mut rxs: Vec<Option<watch::Receiver<u8>>> = (0..n).map(|_| None).collect();
        for t in &cfg.tx_threads {
            txs[*t] = Some(tx.clone());
        }
        for t in &cfg.rx_threads {
            rxs[*t] = Some(rx.clone());
        }
        drop(tx);
        drop(rx);
        WObjs {
            tx: RefCell::new(txs),
            rx: RefCell::new(rxs),
        }
    }
    fn new_locals(_cfg: &WCfg, _t: usize) {}

    fn exec(o: &WObjs, _l: &mut (), t: usize, op: &WOp) -> WRes {
        match op {
            WOp::Send(v) => match take_tx(o, t) {
                None => WRes::Nothing,
                Some(h) => {
                    let r = h.send(*v).is_ok();
                    o.tx.borrow_mut()[t] = Some(h);
                    if r {
                        WRes::Ok
                    } else {
                        WRes::Err
                    }
                }
            },
            WOp::SendModify(v) => match take_tx(o, t) {
                None => WRes::Nothing,
                Some(h) => {
                    h.send_modify(|x| *x = *v);
                    o.tx.borrow_mut()[t] = Some(h);
                    WRes::Unit
                }
            },
            WOp::SendReplace(v) => match take_tx(o, t) {
                None => WRes::Nothing,
                Some(h) => {
                    let old = h.send_replace(*v);
                    o.tx.borrow_mut()[t] = Some(h);
                    WRes::Val(old)
                }
            },
            WOp::TxBorrow => match take_tx(o, t) {
                None => WRes::Nothing,
                Some(h) => {
                    let v = {
                        let r = h.borrow();
                        *r
                    };
                    o.tx.borrow_mut()[t] = Some(h);
                    WRes::Val(v)
                }
            },
            WOp::TxIsClosed => match take_tx(o, t) {
                None => WRes::Nothing,
                Some(h) => {
                    let r = h.is_closed();
                    o.tx.borrow_mut()[t] = Some(h);
                    WRes::Bool(r)
                }
            },
            WOp::DropTx => match take_tx(o, t) {
                None => WRes::Nothing,
                Some(h) => {
                    drop(h);
                    WRes::Unit
                }
            },
            WOp::BorrowAndUpdate => match take_rx(o, t) {
                None => WRes::Nothing,
                Some(mut h) => {
                    let v = {
                        let r = h.borrow_and_update();
                        *r
                    };
                    o.rx.borrow_mut()[t] = Some(h);
                    WRes::Val(v)
                }
            },
            WOp::Borrow => match take_rx(o, t) {
                None => WRes::Nothing,
                Some(h) => {
                    let v = {
                        let r = h.borrow();
                        *r
                    };
                    o.rx.borrow_mut()[t] = Some(h);
                    WRes::Val(v)
                }
            },
            WOp::HasChanged => match take_rx(o, t) {
                None => WRes::Nothing,
                Some(h) => {
                    let r = h.has_changed();
                    o.rx.borrow_mut()[t] = Some(h);
                    match r {
                        Ok(b) => WRes::Bool(b),
                        Err(_) => WRes::Err,
                    }
                }
            },
            WOp::DropRx => match take_rx(o, t) {
                None => WRes::Nothing,
                Some(h) => {
                    drop(h);
                    WRes::Unit
                }
            },
            WOp::TriggerAll => {
                shuttle_tokio_impl_inner::time::trigger_timeouts(|_| true);
                WRes::Unit
            }
            WOp::ClearTriggers => {
                shuttle_tokio_impl_inner::time::clear_triggers();
                WRes::Unit
            }
            WOp::Changed | WOp::WaitFor(_) | WOp::TxClosed | WOp::TimeoutChanged | WOp::Yield => unreachable!("async operation in a synchronous context"),
        }
    }

    fn exec_async<'a>(o: &'a WObjs, l: &'a mut (), t: usize, op: &'a WOp) -> Pin<Box<dyn Future<Output = WRes> + 'a>> {
        Box::pin(async move {
            match op {
                WOp::Changed => match take_rx(o, t) {
                    None => WRes::Nothing,
                    Some(mut h) => {
                        let r = h.changed().await.is_ok();
                        o.rx.borrow_mut()[t] = Some(h);
                        if r {
                            WRes::Ok
                        } else {
                            WRes::Err
                        }
                    }
                },
                WOp::TimeoutChanged => match take_rx(o, t) {
                    None => WRes::Nothing,
                    Some(mut h) => {
                        let r = shuttle_tokio_impl_inner::time::timeout(std::time::Duration::from_secs(1), h.changed()).await;
                        o.rx.borrow_mut()[t] = Some(h);
                        match r {
                            Ok(Ok(())) => WRes::Ok,
                            Ok(Err(_)) => WRes::Err,
                            Err(_) => WRes::Elapsed,
                        }
                    }
                },
                WOp::Yield => {
                    shuttle_tokio_impl_inner::task::yield_now().await;
                    WRes::Unit
                }
                WOp::WaitFor(v) => match take_rx(o, t) {
                    None => WRes::Nothing,
                    Some(mut h) => {
                        // (a task cancelled in here drops the receiver it owns, like any tokio task)
                        let r = {
                            let w = *v;
                            match h.wait_for(move |x| *x == w).await {
                                Ok(r) => Some(*r),
                                Err(_) => None,
                            }
                        };
                        o.rx.borrow_mut()[t] = Some(h);
                        match r {
                            Some(x) => WRes::Val(x),
                            None => WRes::Err,
                        }
                    }
                },
                WOp::TxClosed => match take_tx(o, t) {
                    None => WRes::Nothing,
                    Some(h) => {
                        h.closed().await;
                        o.tx.borrow_mut()[t] = Some(h);
                        WRes::Unit
                    }
                },
                _ => Self::exec(o, l, t, op),
            }
        })
    }

    fn yields(_op: &WOp) -> Option<bool> {
        None
    }
    /// A task can be cancelled where it is suspended: registered for a notification inside
    /// `changed()` / `wait_for()` / `closed()`.  Everything else (including the blocking read lock
    /// inside `wait_for`) runs synchronously inside one poll.
    fn m_abortable(op: &WOp, phase: u8) -> bool {
        match op {
            WOp::Changed | WOp::TxClosed | WOp::TimeoutChanged => phase == 1,
            WOp::Yield => true,
            WOp::WaitFor(_) => phase == 5,
            _ => false,
        }
    }
    /// The cancelled task's future owns the handle it was awaiting on (the interpreter moved it
    /// in, as a tokio task owns its receiver): tokio documents `changed` / `wait_for` / `closed` as
    /// cancel safe — the pending request simply goes away — and the handle is then dropped like by
    /// `drop(rx)` / `drop(tx)`: the last receiver going away wakes `Sender::closed()`, the last
    /// sender going away closes the channel and wakes every `changed()`.  Those wake-ups are
    /// scheduling steps of the cancelled task (inside its destructor).
    fn m_cancel_begin(m: &WM, t: usize, op: &WOp, _phase: u8) -> Option<Vec<MStep<WM, ()>>> {
        let id = t as u8;
        let mut n = m.clone();
        match op {
            WOp::Changed | WOp::WaitFor(_) | WOp::TimeoutChanged => {
                n.rxw[t] = 0;
                n.wfc[t] = false;
                n.live[t] = false;
                n.expired[t] = false;
                n.rx_alive[t] = false;
                if n.rx_count() == 0 {
                    n.notify(id, false);
                }
            }
            WOp::TxClosed => {
                n.txw[t] = 0;
                n.tx_alive[t] = false;
                if !n.tx_alive.iter().any(|a| *a) {
                    n.closed = true;
                    n.notify(id, true);
                }
            }
            _ => return None,
        }
        Some(vec![if n.pending(id) { MStep::Cont(n, 1) } else { MStep::Done(n, ()) }])
    }
    fn m_cancel_step(m: &WM, t: usize, _op: &WOp, _cphase: u8, _strict: bool) -> Vec<MStep<WM, ()>> {
        let id = t as u8;
        if !m.pending(id) {
            return vec![MStep::Done(m.clone(), ())];
        }
        m.deliver(id).into_iter().map(|x| MStep::Cont(x, 1)).collect()
    }
    fn objects_of(_op: &WOp) -> Vec<u32> {
        vec![0xC40]
    }
    fn m_init(cfg: &WCfg, n: usize) -> WM {
        let mut tx_alive = vec![false; n];
        let mut rx_alive = vec![false; n];
        for t in &cfg.tx_threads {
            tx_alive[*t] = true;
        }
        for t in &cfg.rx_threads {
            rx_alive[*t] = true;
        }
        WM {
            value: 0,
            version: 0,
            closed: cfg.tx_threads.is_empty(),
            tx_alive,
            rx_alive,
            seen: vec![0; n],
            lock: FairSem::new(MANY),
            rxw: vec![0; n],
            txw: vec![0; n],
            to_wake: vec![],
            tmp: vec![None; n],
            wfc: vec![false; n],
            triggered: false,
            live: vec![false; n],
            expired: vec![false; n],
        }
    }

    fn m_step(m: &WM, t: usize, op: &WOp, phase: u8, strict: bool) -> Vec<MStep<WM, WRes>> {
        let mut n = m.clone();
        let id = t as u8;
        // finish by delivering the wake-ups this thread owes, one at a time
        // (the operation returns once nothing is owed; every delivery is a step of its own)
        let finish = |n: WM, r: WRes, ph: u8| -> Vec<MStep<WM, WRes>> {
            if !n.pending(id) {
                return vec![MStep::Done(n, r)];
            }
            n.deliver(id).into_iter().map(|x| MStep::Cont(x, ph)).collect()
        };
        match op {
            WOp::Send(v) | WOp::SendModify(v) | WOp::SendReplace(v) => {
                if !n.tx_alive[t] {
                    return vec![MStep::Done(n, WRes::Nothing)];
                }
                match phase {
                    0 => {
                        // only `send` looks at the number of receivers (and refuses without any)
                        if matches!(op, WOp::Send(_)) && n.rx_count() == 0 {
                            return vec![MStep::Done(n, WRes::Err)];
                        }
                        vec![MStep::Cont(n, 1)]
                    }
                    1 | 2 => {
                        let r = if phase == 1 { n.lock.arrive(id, MANY) } else { n.lock.complete(id) };
                        match r {
                            Some(Acq::Ok) => {
                                n.tmp[t] = Some(n.value);
                                n.value = *v;
                                n.version += 1;
                                vec![MStep::Cont(n, 3)]
                            }
                            Some(_) => unreachable!("the value lock is never closed"),
                            None => {
                                if phase == 1 {
                                    vec![MStep::Cont(n, 2)]
                                } else {
                                    vec![]
                                }
                            }
                        }
                    }
                    3 => {
                        n.lock.release(MANY);
                        vec![MStep::Cont(n, 4)]
                    }
                    4 => {
                        n.notify(id, true);
                        vec![MStep::Cont(n, 5)]
                    }
                    _ => {
                        if n.pending(id) {
                            return finish(n, WRes::Ok, 5);
                        }
                        let old = n.tmp[t].take().expect("previous value");
                        let r = match op {
                            WOp::Send(_) => WRes::Ok,
                            WOp::SendModify(_) => WRes::Unit,
                            _ => WRes::Val(old),
                        };
                        vec![MStep::Done(n, r)]
                    }
                }
            }
            WOp::TxBorrow | WOp::Borrow | WOp::BorrowAndUpdate => {
                let alive = if matches!(op, WOp::TxBorrow) { n.tx_alive[t] } else { n.rx_alive[t] };
                if !alive {
                    return vec![MStep::Done(n, WRes::Nothing)];
                }
                match phase {
                    0 | 1 => {
                        let r = if phase == 0 { n.lock.arrive(id, 1) } else { n.lock.complete(id) };
                        match r {
                            Some(Acq::Ok) => {
                                n.tmp[t] = Some(n.value);
                                if matches!(op, WOp::BorrowAndUpdate) {
                                    n.seen[t] = n.version;
                                }
                                vec![MStep::Cont(n, 2)]
                            }
                            Some(_) => unreachable!("the value lock is never closed"),
                            None => {
                                if phase == 0 {
                                    vec![MStep::Cont(n, 1)]
                                } else {
                                    vec![]
                                }
                            }
                        }
                    }
                    _ => {
                        n.lock.release(1);
                        let v = n.tmp[t].take().expect("value read");
                        vec![MStep::Done(n, WRes::Val(v))]
                    }
                }
            }
            WOp::TxIsClosed => {
                if !n.tx_alive[t] {
                    return vec![MStep::Done(n, WRes::Nothing)];
                }
                let c = n.rx_count() == 0;
                vec![MStep::Done(n, WRes::Bool(c))]
            }
            WOp::TxClosed => {
                if !n.tx_alive[t] {
                    return vec![MStep::Done(n, WRes::Nothing)];
                }
                if phase == 0 || n.txw[t] == 3 || (!strict && n.txw[t] == 2) {
                    if n.rx_count() == 0 {
                        n.txw[t] = 0;
                        vec![MStep::Done(n, WRes::Unit)]
                    } else {
                        n.txw[t] = 1;
                        vec![MStep::Cont(n, 1)]
                    }
                } else {
                    vec![]
                }
            }
            WOp::DropTx => {
                if phase == 0 {
                    if !n.tx_alive[t] {
                        return vec![MStep::Done(n, WRes::Nothing)];
                    }
                    n.tx_alive[t] = false;
                    if !n.tx_alive.iter().any(|a| *a) {
                        n.closed = true;
                        n.notify(id, true);
                    }
                    return vec![MStep::Cont(n, 1)];
                }
                finish(n, WRes::Unit, 1)
            }
            WOp::Changed => {
                if !n.rx_alive[t] {
                    return vec![MStep::Done(n, WRes::Nothing)];
                }
                if phase == 0 || n.rxw[t] == 3 || (!strict && n.rxw[t] == 2) {
                    if n.version != n.seen[t] {
                        n.seen[t] = n.version;
                        n.rxw[t] = 0;
                        vec![MStep::Done(n, WRes::Ok)]
                    } else if n.closed {
                        n.rxw[t] = 0;
                        vec![MStep::Done(n, WRes::Err)]
                    } else {
                        n.rxw[t] = 1;
                        vec![MStep::Cont(n, 1)]
                    }
                } else {
                    vec![]
                }
            }
            // `Timeout::poll` looks at the expiry first, then polls `changed()`; with the expiry and a
            // new value both there the wrapper says Elapsed (the value stays unseen), tokio's own
            // `timeout` polls first and would say Ok — the contract-only relation accepts either.
            // An expired timeout drops the pending `changed()` (cancel safe: nothing is marked seen).
            WOp::TimeoutChanged => {
                if !n.rx_alive[t] {
                    return vec![MStep::Done(n, WRes::Nothing)];
                }
                if phase == 0 {
                    if n.triggered {
                        // born expired: `changed()` is never polled
                        return vec![MStep::Done(n, WRes::Elapsed)];
                    }
                    n.live[t] = true;
                    n.expired[t] = false;
                }
                let mut out = Vec::new();
                if n.expired[t] {
                    let mut e = n.clone();
                    e.rxw[t] = 0;
                    e.live[t] = false;
                    e.expired[t] = false;
                    out.push(MStep::Done(e, WRes::Elapsed));
                    if strict {
                        return out;
                    }
                }
                if phase == 0 || n.rxw[t] == 3 || (!strict && n.rxw[t] == 2) {
                    if n.version != n.seen[t] {
                        n.seen[t] = n.version;
                        n.rxw[t] = 0;
                        n.live[t] = false;
                        n.expired[t] = false;
                        out.push(MStep::Done(n, WRes::Ok));
                    } else if n.closed {
                        n.rxw[t] = 0;
                        n.live[t] = false;
                        n.expired[t] = false;
                        out.push(MStep::Done(n, WRes::Err));
                    } else {
                        n.rxw[t] = 1;
                        out.push(MStep::Cont(n, 1));
                    }
                }
                out
            }
            WOp::TriggerAll => {
                n.triggered = true;
                for i in 0..n.live.len() {
                    if n.live[i] {
                        n.expired[i] = true;
                    }
                }
                vec![MStep::Done(n, WRes::Unit)]
            }
            WOp::ClearTriggers => {
                n.triggered = false;
                vec![MStep::Done(n, WRes::Unit)]
            }
            WOp::Yield => vec![MStep::Done(n, WRes::Unit)],
            WOp::WaitFor(v) => {
                if !n.rx_alive[t] {
                    return vec![MStep::Done(n, WRes::Nothing)];
                }
                // after the lock has been given back (or a wake-up): `changed_impl`
                let chk = |mut n: WM| -> Vec<MStep<WM, WRes>> {
                    if n.version != n.seen[t] {
                        n.seen[t] = n.version;
                        n.rxw[t] = 0;
                        vec![MStep::Cont(n, 0)]
                    } else if n.closed {
                        n.rxw[t] = 0;
                        n.wfc[t] = true;
                        vec![MStep::Cont(n, 0)]
                    } else {
                        n.rxw[t] = 1;
                        vec![MStep::Cont(n, 5)]
                    }
                };
                match phase {
                    0 | 1 => {
                        let r = if phase == 0 { n.lock.arrive(id, 1) } else { n.lock.complete(id) };
                        match r {
                            Some(Acq::Ok) => {
                                // under the read lock: mark seen, evaluate the predicate (skipped
                                // once closed and nothing new)
                                let has_changed = n.version != n.seen[t];
                                n.seen[t] = n.version;
                                if (!n.wfc[t] || has_changed) && n.value == *v {
                                    n.tmp[t] = Some(n.value);
                                    vec![MStep::Cont(n, 2)]
                                } else {
                                    vec![MStep::Cont(n, 3)]
                                }
                            }
                            Some(_) => unreachable!("the value lock is never closed"),
                            None => {
                                if phase == 0 {
                                    vec![MStep::Cont(n, 1)]
                                } else {
                                    vec![]
                                }
                            }
                        }
                    }
                    2 => {
                        // the returned `Ref` is dropped by the caller
                        n.lock.release(1);
                        n.wfc[t] = false;
                        let x = n.tmp[t].take().expect("value read");
                        vec![MStep::Done(n, WRes::Val(x))]
                    }
                    3 => {
                        n.lock.release(1);
                        if n.wfc[t] {
                            n.wfc[t] = false;
                            return vec![MStep::Done(n, WRes::Err)];
                        }
                        chk(n)
                    }
                    _ => {
                        if n.rxw[t] == 3 || (!strict && n.rxw[t] == 2) {
                            chk(n)
                        } else {
                            vec![]
                        }
                    }
                }
            }
            WOp::HasChanged => {
                if !n.rx_alive[t] {
                    return vec![MStep::Done(n, WRes::Nothing)];
                }
                if n.closed {
                    vec![MStep::Done(n, WRes::Err)]
                } else {
                    let b = n.version != n.seen[t];
                    vec![MStep::Done(n, WRes::Bool(b))]
                }
            }
            WOp::DropRx => {
                if phase == 0 {
                    if !n.rx_alive[t] {
                        return vec![MStep::Done(n, WRes::Nothing)];
                    }
                    n.rx_alive[t] = false;
                    if n.rx_count() == 0 {
                        n.notify(id, false);
                    }
                    return vec![MStep::Cont(n, 1)];
                }
                finish(n, WRes::Unit, 1)
            }
        }
    }
}

impl XFamily for WatchFam {}

// ---------------------------------------------------------------------------------------------

fn seqs(alpha: &[WOp], k: usize, tail: &WOp) -> Vec<Vec<WOp>> {
    let mut out = Vec::new();
    let mut cur: Vec<Vec<WOp>> = vec![vec![]];
    for _ in 0..k {
        let mut next = Vec::new();
        for s in &cur {
            for a in alpha {
                let mut s2 = s.clone();
                s2.push(a.clone());
                next.push(s2);
            }
        }
        for s in &next {
            out.push(s.clone());
            if s.len() < k {
                let mut d = s.clone();
                d.push(tail.clone());
                out.push(d);
            }
        }
        cur = next;
    }
    out.push(vec![tail.clone()]);
    out
}

fn assign_values(t: usize, s: &[WOp]) -> Vec<WOp> {
    let mut k = 0u8;
    s.iter()
        .map(|o| match o {
            WOp::Send(_) => {
                k += 1;
                WOp::Send(10 * (t as u8 + 1) + k)
            }
            WOp::SendModify(_) => {
                k += 1;
                WOp::SendModify(10 * (t as u8 + 1) + k)
            }
            WOp::SendReplace(_) => {
                k += 1;
                WOp::SendReplace(10 * (t as u8 + 1) + k)
            }
            o => o.clone(),
        })
        .collect()
}

pub fn program_set(set: &str) -> Vec<Program<WatchFam>> {
    let thorough = set == "thorough";
    let mut out = Vec::new();
    let tx_alpha: Vec<WOp> = if thorough { vec![WOp::Send(0), WOp::TxBorrow, WOp::TxIsClosed, WOp::TxClosed] } else { vec![WOp::Send(0), WOp::TxClosed] };
    let rx_alpha: Vec<WOp> = vec![WOp::Changed, WOp::BorrowAndUpdate, WOp::Borrow, WOp::HasChanged];
    let (kt, kr, max2) = if thorough { (3, 3, 5) } else { (2, 3, 4) };
    let txs = seqs(&tx_alpha, kt, &WOp::DropTx);
    let rxs = seqs(&rx_alpha, kr, &WOp::DropRx);
    // one sender, one receiver; main holds either side or neither
    for a in &txs {
        for b in &rxs {
            if thorough && a.len() + b.len() == max2 + 1 {
                // one more operation where main holds the sending side (two tasks only)
                out.push(Program::fork_join(WCfg { tx_threads: vec![0], rx_threads: vec![1] }, assign_values(0, a), vec![b.clone()]));
            }
            if a.len() + b.len() > max2 {
                continue;
            }
            let a1 = assign_values(1, a);
            if thorough || a.len() + b.len() <= 3 {
                out.push(Program::fork_join(WCfg { tx_threads: vec![1], rx_threads: vec![2] }, vec![], vec![a1.clone(), b.clone()]));
            }
            out.push(Program::fork_join(WCfg { tx_threads: vec![0], rx_threads: vec![1] }, assign_values(0, a), vec![b.clone()]));
            if thorough {
                out.push(Program::fork_join(WCfg { tx_threads: vec![1], rx_threads: vec![0] }, b.clone(), vec![a1]));
            }
        }
    }
    // one sender, two receivers
    let (kr2, max3) = if thorough { (2, 5) } else { (2, 4) };
    let rx2 = seqs(&rx_alpha, kr2, &WOp::DropRx);
    let tx2 = seqs(&[WOp::Send(0)], 2, &WOp::DropTx);
    for a in &tx2 {
        for idx in nondecreasing_tuples(rx2.len(), 2) {
            let (b, c) = (&rx2[idx[0]], &rx2[idx[1]]);
            if a.len() + b.len() + c.len() > max3 {
                continue;
            }
            if !thorough && a.len() + b.len() + c.len() == 4 && !(b.contains(&WOp::Changed) && c.contains(&WOp::Changed) && a.len() == 1) {
                continue;
            }
            out.push(Program::fork_join(WCfg { tx_threads: vec![0], rx_threads: vec![1, 2] }, assign_values(0, a), vec![b.clone(), c.clone()]));
        }
    }
    // two senders, one receiver
    for idx in nondecreasing_tuples(tx2.len(), 2) {
        for b in &rx2 {
            let (a, c) = (&tx2[idx[0]], &tx2[idx[1]]);
            if a.len() + b.len() + c.len() > max3 {
                continue;
            }
            if !thorough && a.len() + b.len() + c.len() == 4 && !(b.len() == 2 && b.contains(&WOp::Changed)) {
                continue;
            }
            out.push(Program::fork_join(WCfg { tx_threads: vec![1, 2], rx_threads: vec![0] }, b.clone(), vec![assign_values(1, a), assign_values(2, c)]));
        }
    }
    // ---- send_modify / send_replace / wait_for (targeted: they share the machinery of send / changed)
    let g = |v: &[WOp]| v.iter().cloned().map(GOp::Op).collect::<Vec<_>>();
    for tx in [
        vec![WOp::SendModify(11)],
        vec![WOp::SendReplace(11)],
        vec![WOp::SendReplace(11), WOp::SendModify(12)],
        vec![WOp::Send(11), WOp::SendReplace(12)],
        vec![WOp::SendModify(11), WOp::DropTx],
    ] {
        for rx in [
            vec![WOp::Changed, WOp::Borrow],
            vec![WOp::WaitFor(11)],
            vec![WOp::WaitFor(12)],
            vec![WOp::WaitFor(0)],
            vec![WOp::Changed, WOp::WaitFor(12)],
            vec![WOp::DropRx],
            vec![WOp::BorrowAndUpdate, WOp::DropRx],
        ] {
            let two = tx.iter().filter(|o| !matches!(o, WOp::DropTx)).count() == 2;
            if !thorough && two && rx.len() == 2 {
                continue;
            }
            out.push(Program::fork_join(WCfg { tx_threads: vec![0], rx_threads: vec![1] }, tx.clone(), vec![rx.clone()]));
            if thorough {
                out.push(Program::fork_join(WCfg { tx_threads: vec![1], rx_threads: vec![2] }, vec![], vec![tx.clone(), rx.clone()]));
            }
        }
    }
    // ---- cancellation: a receiver task aborted inside changed() / wait_for() while a send / send_modify
    // / send_replace / the drop of the sender is under way, a second receiver surviving: the survivor
    // is still notified and sees the latest value, the victim's receiver is gone (receiver count,
    // `closed()`), nothing of it is left behind
    let victims: Vec<Vec<WOp>> = vec![vec![WOp::Changed], vec![WOp::WaitFor(99)], vec![WOp::Changed, WOp::Changed]];
    let survivors: Vec<Vec<WOp>> = vec![vec![WOp::Changed, WOp::Borrow], vec![WOp::Changed, WOp::Changed, WOp::Borrow], vec![WOp::WaitFor(12)]];
    let senders: Vec<Vec<WOp>> = vec![
        vec![WOp::Send(11)],
        vec![WOp::SendModify(11)],
        vec![WOp::SendReplace(11)],
        vec![WOp::DropTx],
        vec![WOp::Send(11), WOp::Send(12)],
        vec![WOp::Send(11), WOp::DropTx],
        vec![WOp::SendReplace(11), WOp::SendModify(12)],
    ];
    for (vi, v) in victims.iter().enumerate() {
        for (si, sv) in survivors.iter().enumerate() {
            for (xi, tx) in senders.iter().enumerate() {
                // (a) the sender is a task of its own: the abort can fall anywhere inside the send
                // (quick: ~24 k executions for a send, 6 k for the drop; send_modify / send_replace
                // share send's path and come under (b); a `wait_for` victim beside a second
                // receiver costs > 100 k executions: thorough)
                if thorough || (vi == 0 && si == 0 && (xi == 0 || xi == 3)) {
                    let main = vec![GOp::Spawn(1), GOp::Spawn(2), GOp::Spawn(3), GOp::Abort(1), GOp::Join(1), GOp::Join(2), GOp::Join(3)];
                    out.push(Program { cfg: WCfg { tx_threads: vec![3], rx_threads: vec![1, 2] }, threads: vec![main, g(v), g(sv), g(tx)] });
                }
                // (b) main sends, aborts, sends again
                if thorough || (vi == 0 && si <= 1 && xi <= 2) {
                    let mut main = vec![GOp::Spawn(1), GOp::Spawn(2)];
                    main.extend(g(tx));
                    main.push(GOp::Abort(1));
                    main.push(GOp::Join(1));
                    main.push(GOp::Op(WOp::Send(12)));
                    main.push(GOp::Join(2));
                    out.push(Program { cfg: WCfg { tx_threads: vec![0], rx_threads: vec![1, 2] }, threads: vec![main, g(v), g(sv)] });
                }
            }
        }
    }
    // ---- cancellation by `time::timeout` + `trigger_timeouts`: a timed-out `changed()` marks nothing
    // seen (`has_changed` / the next `changed()` still report the value), the other receiver is not
    // disturbed.  No execution of these programs may fail (see fam_task.rs on the timeout table).
    for r1 in [vec![WOp::TimeoutChanged], vec![WOp::TimeoutChanged, WOp::HasChanged], vec![WOp::TimeoutChanged, WOp::TimeoutChanged, WOp::Borrow]] {
        for mid in [vec![WOp::Send(11)], vec![WOp::SendModify(11)], vec![WOp::DropTx], vec![WOp::Send(11), WOp::Send(12)]] {
            // main sends (spawning has no scheduling point: yield so that the children can wait)
            let mut m = vec![GOp::Spawn(1), GOp::Op(WOp::Yield)];
            m.extend(g(&mid));
            m.extend([GOp::Op(WOp::Yield), GOp::Op(WOp::TriggerAll), GOp::Join(1), GOp::Op(WOp::ClearTriggers)]);
            out.push(Program { cfg: WCfg { tx_threads: vec![0], rx_threads: vec![1] }, threads: vec![m, g(&r1)] });
            if mid.len() == 1 {
                // the sender is a task of its own
                let m2 = vec![GOp::Spawn(1), GOp::Spawn(2), GOp::Op(WOp::Yield), GOp::Op(WOp::TriggerAll), GOp::Join(1), GOp::Join(2), GOp::Op(WOp::ClearTriggers)];
                out.push(Program { cfg: WCfg { tx_threads: vec![2], rx_threads: vec![1] }, threads: vec![m2, g(&r1), g(&mid)] });
            }
            if thorough || (r1.len() == 2 && mid.len() == 1) {
                // two receivers
                let mut m3 = vec![GOp::Spawn(1), GOp::Spawn(2), GOp::Op(WOp::Yield)];
                m3.extend(g(&mid));
                m3.extend([GOp::Op(WOp::Yield), GOp::Op(WOp::TriggerAll), GOp::Join(1), GOp::Join(2), GOp::Op(WOp::ClearTriggers)]);
                out.push(Program { cfg: WCfg { tx_threads: vec![0], rx_threads: vec![1, 2] }, threads: vec![m3, g(&r1), g(&[WOp::TimeoutChanged, WOp::BorrowAndUpdate])] });
            }
        }
    }
    // the only receiver is cancelled: afterwards `send` is refused, `is_closed`, `closed()` completes —
    // and a sender waiting in `closed()` is woken by the victim's destructor
    for v in &victims {
        for after in [vec![WOp::Send(11)], vec![WOp::TxIsClosed, WOp::TxClosed], vec![WOp::SendReplace(11), WOp::TxBorrow]] {
            let mut main = vec![GOp::Spawn(1), GOp::Abort(1), GOp::Join(1)];
            main.extend(g(&after));
            out.push(Program { cfg: WCfg { tx_threads: vec![0], rx_threads: vec![1] }, threads: vec![main, g(v)] });
        }
        for txw in [vec![WOp::TxClosed], vec![WOp::Send(11), WOp::TxClosed]] {
            let main = vec![GOp::Spawn(1), GOp::Spawn(2), GOp::Abort(1), GOp::Join(1), GOp::Join(2)];
            out.push(Program { cfg: WCfg { tx_threads: vec![2], rx_threads: vec![1] }, threads: vec![main.clone(), g(v), g(&txw)] });
            if thorough {
                // two senders waiting in closed()
                let main3 = vec![GOp::Spawn(1), GOp::Spawn(2), GOp::Spawn(3), GOp::Abort(1), GOp::Join(1), GOp::Join(2), GOp::Join(3)];
                out.push(Program { cfg: WCfg { tx_threads: vec![2, 3], rx_threads: vec![1] }, threads: vec![main3, g(v), g(&txw), g(&[WOp::TxClosed])] });
            }
        }
    }
    // a sender task cancelled inside closed(): its Sender is dropped — the last one closes the channel
    // and wakes the receivers (from the victim's destructor), any other leaves the channel open
    for rx in [vec![WOp::Changed], vec![WOp::Changed, WOp::Changed], vec![WOp::WaitFor(11)], vec![WOp::HasChanged, WOp::DropRx]] {
        let main = vec![GOp::Spawn(1), GOp::Spawn(2), GOp::Abort(1), GOp::Join(1), GOp::Join(2)];
        out.push(Program { cfg: WCfg { tx_threads: vec![1], rx_threads: vec![2] }, threads: vec![main, g(&[WOp::TxClosed]), g(&rx)] });
        let mut main2 = vec![GOp::Spawn(1), GOp::Spawn(2), GOp::Abort(1), GOp::Join(1), GOp::Op(WOp::Send(11)), GOp::Op(WOp::DropTx), GOp::Join(2)];
        out.push(Program { cfg: WCfg { tx_threads: vec![0, 1], rx_threads: vec![2] }, threads: vec![main2.clone(), g(&[WOp::TxClosed]), g(&rx)] });
        if thorough {
            // two receivers woken by the destructor
            main2 = vec![GOp::Spawn(1), GOp::Spawn(2), GOp::Spawn(3), GOp::Abort(1), GOp::Join(1), GOp::Join(2), GOp::Join(3)];
            out.push(Program { cfg: WCfg { tx_threads: vec![1], rx_threads: vec![2, 3] }, threads: vec![main2, g(&[WOp::TxClosed]), g(&rx), g(&[WOp::Changed])] });
        }
    }
    out.sort_by_key(|p| p.size());
    out
}
