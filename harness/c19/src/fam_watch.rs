//! Family `twatch`: shuttle-tokio's `sync::watch` against tokio's documented contract.
//!
//! tokio::sync::watch (docs): the channel holds one value; `send` replaces it and marks it unseen
//! for every receiver, failing iff there is no receiver; the initial value counts as seen.
//! `changed().await` completes as soon as the receiver's latest look is older than the current
//! value, marking it seen, and fails once every sender is gone and nothing is unseen; `borrow`
//! returns the latest value, `borrow_and_update` additionally marks it seen; `has_changed` reports
//! unseen-ness and fails once every sender is gone; `Sender::closed().await` completes when the
//! last receiver is gone.  "Outstanding borrows hold a read lock on the inner value": a send waits
//! for borrows in progress and vice versa (first come first served).

use crate::driver::XFamily;
use crate::fam_lock::{Acq, FairSem};
use shuttle_tokio_impl_inner::sync::watch;
use std::cell::RefCell;
use std::future::Future;
use std::pin::Pin;
use vx::prog::*;

#[derive(Clone, Debug, PartialEq, Eq, Hash)]
pub enum WOp {
    Send(u8),
    /// `*tx.borrow()`
    TxBorrow,
    /// `tx.is_closed()`
    TxIsClosed,
    /// `tx.closed().await`
    TxClosed,
    DropTx,
    /// `rx.changed().await`
    Changed,
    /// `*rx.borrow_and_update()`
    BorrowAndUpdate,
    /// `*rx.borrow()`
    Borrow,
    HasChanged,
    DropRx,
}

#[derive(Clone, Debug, PartialEq, Eq, Hash, PartialOrd, Ord)]
pub enum WRes {
    Unit,
    Ok,
    Err,
    Val(u8),
    Bool(bool),
    Nothing,
}

#[derive(Clone, Debug)]
pub struct WCfg {
    pub tx_threads: Vec<usize>,
    pub rx_threads: Vec<usize>,
}

pub struct WObjs {
    tx: RefCell<Vec<Option<watch::Sender<u8>>>>,
    rx: RefCell<Vec<Option<watch::Receiver<u8>>>>,
}

/// symbolic "all permits" of the lock around the value
const MANY: u16 = 1000;

#[derive(Clone, Debug, PartialEq, Eq, Hash)]
pub struct WM {
    value: u8,
    version: u8,
    tx_alive: Vec<bool>,
    /// the last sender is gone
    closed: bool,
    rx_alive: Vec<bool>,
    seen: Vec<u8>,
    /// the read-write lock around the value
    lock: FairSem,
    /// per thread: 0 = not waiting, 1 = registered for a change notification, 2 = notified, 3 = woken
    rxw: Vec<u8>,
    /// same for `Sender::closed()`
    txw: Vec<u8>,
    /// wake-ups a notifier still has to deliver: (notifier, target, target is a receiver)
    to_wake: Vec<(u8, u8, bool)>,
    /// value read by the borrow in progress
    tmp: Vec<Option<u8>>,
}

pub struct WatchFam;

impl WM {
    fn rx_count(&self) -> usize {
        self.rx_alive.iter().filter(|a| **a).count()
    }
    /// notify_waiters on the receiver side / sender side by thread `t`
    fn notify(&mut self, t: u8, rx_side: bool) {
        let v = if rx_side { &mut self.rxw } else { &mut self.txw };
        for (i, w) in v.iter_mut().enumerate() {
            if *w == 1 {
                *w = 2;
                self.to_wake.push((t, i as u8, rx_side));
            }
        }
        self.to_wake.sort();
    }
    /// deliver one of `t`'s pending wake-ups: all possible successors (empty = none pending)
    fn deliver(&self, t: u8) -> Vec<WM> {
        let mut out = Vec::new();
        for i in 0..self.to_wake.len() {
            if self.to_wake[i].0 != t {
                continue;
            }
            let mut n = self.clone();
            let (_, w, rx_side) = n.to_wake.remove(i);
            let v = if rx_side { &mut n.rxw } else { &mut n.txw };
            if v[w as usize] == 2 {
                v[w as usize] = 3;
            }
            out.push(n);
        }
        out
    }
    fn pending(&self, t: u8) -> bool {
        self.to_wake.iter().any(|x| x.0 == t)
    }
}

fn take_tx(o: &WObjs, t: usize) -> Option<watch::Sender<u8>> {
    o.tx.borrow_mut()[t].take()
}
fn take_rx(o: &WObjs, t: usize) -> Option<watch::Receiver<u8>> {
    o.rx.borrow_mut()[t].take()
}

impl Family for WatchFam {
    type Op = WOp;
    type Res = WRes;
    type Cfg = WCfg;
    type Objs = WObjs;
    type Locals = ();
    type M = WM;
    const NAME: &'static str = "twatch";
    const ASYNC: bool = true;

    fn make_objs(cfg: &WCfg, n: usize) -> WObjs {
        let (tx, rx) = watch::channel::<u8>(0);
        let mut txs: Vec<Option<watch::Sender<u8>>> = (0..n).map(|_| None).collect();
        let mut rxs: Vec<Option<watch::Receiver<u8>>> = (0..n).map(|_| None).collect();
        for t in &cfg.tx_threads {
            txs[*t] = Some(tx.clone());
        }
        for t in &cfg.rx_threads {
            rxs[*t] = Some(rx.clone());
        }
        drop(tx);
        drop(rx);
        WObjs {
            tx: RefCell::new(txs),
            rx: RefCell::new(rxs),
        }
    }
    fn new_locals(_cfg: &WCfg, _t: usize) {}

    fn exec(o: &WObjs, _l: &mut (), t: usize, op: &WOp) -> WRes {
        match op {
            WOp::Send(v) => match take_tx(o, t) {
                None => WRes::Nothing,
                Some(h) => {
                    let r = h.send(*v).is_ok();
                    o.tx.borrow_mut()[t] = Some(h);
                    if r {
                        WRes::Ok
                    } else {
                        WRes::Err
                    }
                }
            },
            WOp::TxBorrow => match take_tx(o, t) {
                None => WRes::Nothing,
                Some(h) => {
                    let v = {
                        let r = h.borrow();
                        *r
                    };
                    o.tx.borrow_mut()[t] = Some(h);
                    WRes::Val(v)
                }
            },
            WOp::TxIsClosed => match take_tx(o, t) {
                None => WRes::Nothing,
                Some(h) => {
                    let r = h.is_closed();
                    o.tx.borrow_mut()[t] = Some(h);
                    WRes::Bool(r)
                }
            },
            WOp::DropTx => match take_tx(o, t) {
                None => WRes::Nothing,
                Some(h) => {
                    drop(h);
                    WRes::Unit
                }
            },
            WOp::BorrowAndUpdate => match take_rx(o, t) {
                None => WRes::Nothing,
                Some(mut h) => {
                    let v = {
                        let r = h.borrow_and_update();
                        *r
                    };
                    o.rx.borrow_mut()[t] = Some(h);
                    WRes::Val(v)
                }
            },
            WOp::Borrow => match take_rx(o, t) {
                None => WRes::Nothing,
                Some(h) => {
                    let v = {
                        let r = h.borrow();
                        *r
                    };
                    o.rx.borrow_mut()[t] = Some(h);
                    WRes::Val(v)
                }
            },
            WOp::HasChanged => match take_rx(o, t) {
                None => WRes::Nothing,
                Some(h) => {
                    let r = h.has_changed();
                    o.rx.borrow_mut()[t] = Some(h);
                    match r {
                        Ok(b) => WRes::Bool(b),
                        Err(_) => WRes::Err,
                    }
                }
            },
            WOp::DropRx => match take_rx(o, t) {
                None => WRes::Nothing,
                Some(h) => {
                    drop(h);
                    WRes::Unit
                }
            },
            WOp::Changed | WOp::TxClosed => unreachable!("async operation in a synchronous context"),
        }
    }

    fn exec_async<'a>(o: &'a WObjs, l: &'a mut (), t: usize, op: &'a WOp) -> Pin<Box<dyn Future<Output = WRes> + 'a>> {
        Box::pin(async move {
            match op {
                WOp::Changed => match take_rx(o, t) {
                    None => WRes::Nothing,
                    Some(mut h) => {
                        let r = h.changed().await.is_ok();
                        o.rx.borrow_mut()[t] = Some(h);
                        if r {
                            WRes::Ok
                        } else {
                            WRes::Err
                        }
                    }
                },
                WOp::TxClosed => match take_tx(o, t) {
                    None => WRes::Nothing,
                    Some(h) => {
                        h.closed().await;
                        o.tx.borrow_mut()[t] = Some(h);
                        WRes::Unit
                    }
                },
                _ => Self::exec(o, l, t, op),
            }
        })
    }

    fn yields(_op: &WOp) -> Option<bool> {
        None
    }
    fn m_abortable(_op: &WOp, _phase: u8) -> bool {
        false
    }
    fn objects_of(_op: &WOp) -> Vec<u32> {
        vec![0xC40]
    }
    fn m_init(cfg: &WCfg, n: usize) -> WM {
        let mut tx_alive = vec![false; n];
        let mut rx_alive = vec![false; n];
        for t in &cfg.tx_threads {
            tx_alive[*t] = true;
        }
        for t in &cfg.rx_threads {
            rx_alive[*t] = true;
        }
        WM {
            value: 0,
            version: 0,
            closed: cfg.tx_threads.is_empty(),
            tx_alive,
            rx_alive,
            seen: vec![0; n],
            lock: FairSem::new(MANY),
            rxw: vec![0; n],
            txw: vec![0; n],
            to_wake: vec![],
            tmp: vec![None; n],
        }
    }

    fn m_step(m: &WM, t: usize, op: &WOp, phase: u8, strict: bool) -> Vec<MStep<WM, WRes>> {
        let mut n = m.clone();
        let id = t as u8;
        // finish by delivering the wake-ups this thread owes, one at a time
        // (the operation returns once nothing is owed; every delivery is a step of its own)
        let finish = |n: WM, r: WRes, ph: u8| -> Vec<MStep<WM, WRes>> {
            if !n.pending(id) {
                return vec![MStep::Done(n, r)];
            }
            n.deliver(id).into_iter().map(|x| MStep::Cont(x, ph)).collect()
        };
        match op {
            WOp::Send(v) => {
                if !n.tx_alive[t] {
                    return vec![MStep::Done(n, WRes::Nothing)];
                }
                match phase {
                    0 => {
                        if n.rx_count() == 0 {
                            return vec![MStep::Done(n, WRes::Err)];
                        }
                        vec![MStep::Cont(n, 1)]
                    }
                    1 | 2 => {
                        let r = if phase == 1 { n.lock.arrive(id, MANY) } else { n.lock.complete(id) };
                        match r {
                            Some(Acq::Ok) => {
                                n.value = *v;
                                n.version += 1;
                                vec![MStep::Cont(n, 3)]
                            }
                            Some(_) => unreachable!("the value lock is never closed"),
                            None => {
                                if phase == 1 {
                                    vec![MStep::Cont(n, 2)]
                                } else {
                                    vec![]
                                }
                            }
                        }
                    }
                    3 => {
                        n.lock.release(MANY);
                        vec![MStep::Cont(n, 4)]
                    }
                    4 => {
                        n.notify(id, true);
                        vec![MStep::Cont(n, 5)]
                    }
                    _ => finish(n, WRes::Ok, 5),
                }
            }
            WOp::TxBorrow | WOp::Borrow | WOp::BorrowAndUpdate => {
                let alive = if matches!(op, WOp::TxBorrow) { n.tx_alive[t] } else { n.rx_alive[t] };
                if !alive {
                    return vec![MStep::Done(n, WRes::Nothing)];
                }
                match phase {
                    0 | 1 => {
                        let r = if phase == 0 { n.lock.arrive(id, 1) } else { n.lock.complete(id) };
                        match r {
                            Some(Acq::Ok) => {
                                n.tmp[t] = Some(n.value);
                                if matches!(op, WOp::BorrowAndUpdate) {
                                    n.seen[t] = n.version;
                                }
                                vec![MStep::Cont(n, 2)]
                            }
                            Some(_) => unreachable!("the value lock is never closed"),
                            None => {
                                if phase == 0 {
                                    vec![MStep::Cont(n, 1)]
                                } else {
                                    vec![]
                                }
                            }
                        }
                    }
                    _ => {
                        n.lock.release(1);
                        let v = n.tmp[t].take().expect("value read");
                        vec![MStep::Done(n, WRes::Val(v))]
                    }
                }
            }
            WOp::TxIsClosed => {
                if !n.tx_alive[t] {
                    return vec![MStep::Done(n, WRes::Nothing)];
                }
                let c = n.rx_count() == 0;
                vec![MStep::Done(n, WRes::Bool(c))]
            }
            WOp::TxClosed => {
                if !n.tx_alive[t] {
                    return vec![MStep::Done(n, WRes::Nothing)];
                }
                if phase == 0 || n.txw[t] == 3 || (!strict && n.txw[t] == 2) {
                    if n.rx_count() == 0 {
                        n.txw[t] = 0;
                        vec![MStep::Done(n, WRes::Unit)]
                    } else {
                        n.txw[t] = 1;
                        vec![MStep::Cont(n, 1)]
                    }
                } else {
                    vec![]
                }
            }
            WOp::DropTx => {
                if phase == 0 {
                    if !n.tx_alive[t] {
                        return vec![MStep::Done(n, WRes::Nothing)];
                    }
                    n.tx_alive[t] = false;
                    if !n.tx_alive.iter().any(|a| *a) {
                        n.closed = true;
                        n.notify(id, true);
                    }
                    return vec![MStep::Cont(n, 1)];
                }
                finish(n, WRes::Unit, 1)
            }
            WOp::Changed => {
                if !n.rx_alive[t] {
                    return vec![MStep::Done(n, WRes::Nothing)];
                }
                if phase == 0 || n.rxw[t] == 3 || (!strict && n.rxw[t] == 2) {
                    if n.version != n.seen[t] {
                        n.seen[t] = n.version;
                        n.rxw[t] = 0;
                        vec![MStep::Done(n, WRes::Ok)]
                    } else if n.closed {
                        n.rxw[t] = 0;
                        vec![MStep::Done(n, WRes::Err)]
                    } else {
                        n.rxw[t] = 1;
                        vec![MStep::Cont(n, 1)]
                    }
                } else {
                    vec![]
                }
            }
            WOp::HasChanged => {
                if !n.rx_alive[t] {
                    return vec![MStep::Done(n, WRes::Nothing)];
                }
                if n.closed {
                    vec![MStep::Done(n, WRes::Err)]
                } else {
                    let b = n.version != n.seen[t];
                    vec![MStep::Done(n, WRes::Bool(b))]
                }
            }
            WOp::DropRx => {
                if phase == 0 {
                    if !n.rx_alive[t] {
                        return vec![MStep::Done(n, WRes::Nothing)];
                    }
                    n.rx_alive[t] = false;
                    if n.rx_count() == 0 {
                        n.notify(id, false);
                    }
                    return vec![MStep::Cont(n, 1)];
                }
                finish(n, WRes::Unit, 1)
            }
        }
    }
}

impl XFamily for WatchFam {}

// ---------------------------------------------------------------------------------------------

fn seqs(alpha: &[WOp], k: usize, tail: &WOp) -> Vec<Vec<WOp>> {
    let mut out = Vec::new();
    let mut cur: Vec<Vec<WOp>> = vec![vec![]];
    for _ in 0..k {
        let mut next = Vec::new();
        for s in &cur {
            for a in alpha {
                let mut s2 = s.clone();
                s2.push(a.clone());
                next.push(s2);
            }
        }
        for s in &next {
            out.push(s.clone());
            if s.len() < k {
                let mut d = s.clone();
                d.push(tail.clone());
                out.push(d);
            }
        }
        cur = next;
    }
    out.push(vec![tail.clone()]);
    out
}

fn assign_values(t: usize, s: &[WOp]) -> Vec<WOp> {
    let mut k = 0u8;
    s.iter()
        .map(|o| match o {
            WOp::Send(_) => {
                k += 1;
                WOp::Send(10 * (t as u8 + 1) + k)
            }
            o => o.clone(),
        })
        .collect()
}

pub fn program_set(set: &str) -> Vec<Program<WatchFam>> {
    let thorough = set == "thorough";
    let mut out = Vec::new();
    let tx_alpha: Vec<WOp> = if thorough { vec![WOp::Send(0), WOp::TxBorrow, WOp::TxIsClosed, WOp::TxClosed] } else { vec![WOp::Send(0), WOp::TxClosed] };
    let rx_alpha: Vec<WOp> = vec![WOp::Changed, WOp::BorrowAndUpdate, WOp::Borrow, WOp::HasChanged];
    let (kt, kr, max2) = if thorough { (3, 3, 5) } else { (2, 3, 4) };
    let txs = seqs(&tx_alpha, kt, &WOp::DropTx);
    let rxs = seqs(&rx_alpha, kr, &WOp::DropRx);
    // one sender, one receiver; main holds either side or neither
    for a in &txs {
        for b in &rxs {
            if thorough && a.len() + b.len() == max2 + 1 {
                // one more operation where main holds the sending side (two tasks only)
                out.push(Program::fork_join(WCfg { tx_threads: vec![0], rx_threads: vec![1] }, assign_values(0, a), vec![b.clone()]));
            }
            if a.len() + b.len() > max2 {
                continue;
            }
            let a1 = assign_values(1, a);
            if thorough || a.len() + b.len() <= 3 {
                out.push(Program::fork_join(WCfg { tx_threads: vec![1], rx_threads: vec![2] }, vec![], vec![a1.clone(), b.clone()]));
            }
            out.push(Program::fork_join(WCfg { tx_threads: vec![0], rx_threads: vec![1] }, assign_values(0, a), vec![b.clone()]));
            if thorough {
                out.push(Program::fork_join(WCfg { tx_threads: vec![1], rx_threads: vec![0] }, b.clone(), vec![a1]));
            }
        }
    }
    // one sender, two receivers
    let (kr2, max3) = if thorough { (2, 5) } else { (2, 4) };
    let rx2 = seqs(&rx_alpha, kr2, &WOp::DropRx);
    let tx2 = seqs(&[WOp::Send(0)], 2, &WOp::DropTx);
    for a in &tx2 {
        for idx in nondecreasing_tuples(rx2.len(), 2) {
            let (b, c) = (&rx2[idx[0]], &rx2[idx[1]]);
            if a.len() + b.len() + c.len() > max3 {
                continue;
            }
            if !thorough && a.len() + b.len() + c.len() == 4 && !(b.contains(&WOp::Changed) && c.contains(&WOp::Changed) && a.len() == 1) {
                continue;
            }
            out.push(Program::fork_join(WCfg { tx_threads: vec![0], rx_threads: vec![1, 2] }, assign_values(0, a), vec![b.clone(), c.clone()]));
        }
    }
    // two senders, one receiver
    for idx in nondecreasing_tuples(tx2.len(), 2) {
        for b in &rx2 {
            let (a, c) = (&tx2[idx[0]], &tx2[idx[1]]);
            if a.len() + b.len() + c.len() > max3 {
                continue;
            }
            if !thorough && a.len() + b.len() + c.len() == 4 && !(b.len() == 2 && b.contains(&WOp::Changed)) {
                continue;
            }
            out.push(Program::fork_join(WCfg { tx_threads: vec![1, 2], rx_threads: vec![0] }, b.clone(), vec![assign_values(1, a), assign_values(2, c)]));
        }
    }
    out.sort_by_key(|p| p.size());
    out
}
