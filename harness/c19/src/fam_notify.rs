//! Family `tnotify`: shuttle-tokio's `sync::Notify` against tokio's documented contract.
//!
//! tokio::sync::Notify (docs): `notify_one` wakes one task that is *waiting* (its `Notified` future
//! has been polled or `enable`d and has not completed); if there is none, a permit is stored — at
//! most one — and the next `notified().await` (first poll / `enable`) consumes it and completes
//! immediately.  `notify_waiters` completes every `Notified` future that exists at that moment,
//! polled or not, and stores nothing.  `enable` registers the future without a waker and reports
//! whether it is already complete.  No notification is ever lost: a `Notified` future that received
//! a `notify_one` and is dropped before it was polled to completion passes the notification on
//! (to another waiter, else as the stored permit).  The same holds when the drop is a cancellation:
//! a task aborted while it awaits (or while it holds an enabled future across `yield_now`), or a
//! `time::timeout(notified())` expired by `trigger_timeouts`.  Waking the next waiter is then a
//! scheduling step of the cancelled task inside its destructor (`m_cancel_begin` / `m_cancel_step`).
//!
//! The wrapper picks the waiter to wake with `shuttle::rand`; the explorer therefore branches over a
//! data menu that reaches every waiter (see `rand_menu`).

use crate::driver::{wk, XFamily};
use shuttle_tokio_impl_inner::sync::futures::Notified;
use shuttle_tokio_impl_inner::sync::Notify;
use std::future::Future;
use std::pin::Pin;
use std::task::Poll;
use vx::prog::*;

#[derive(Clone, Debug, PartialEq, Eq, Hash)]
pub enum NOp {
    /// `let f = notify.notified()` (kept by this thread)
    New,
    /// `f.as_mut().enable()`
    Enable,
    /// poll `f` once
    Poll,
    /// `f.await` — or `notify.notified().await` if the thread keeps no future
    Await,
    /// `drop(f)`
    DropFut,
    NotifyOne,
    NotifyWaiters,
    /// `task::yield_now().await` — the only scheduling point a thread can put between `enable` and
    /// the drop of its future (neither has one of its own)
    Yield,
    /// `time::timeout(1s, notify.notified()).await` (the thread keeps no future): `Unit` / `Elapsed`
    TimeoutAwait,
    /// `time::trigger_timeouts(|_| true)`: every live timeout expires, later ones are born expired
    TriggerAll,
    /// `time::clear_triggers()`
    ClearTriggers,
}

#[derive(Clone, Debug, PartialEq, Eq, Hash, PartialOrd, Ord)]
pub enum NRes {
    Unit,
    Elapsed,
    Bool(bool),
    Ready,
    Pending,
    Nothing,
}

pub struct NObjs {
    notify: Notify,
}

pub struct NLocals {
    // borrows NObjs::notify (which outlives every task's locals)
    fut: Option<Pin<Box<Notified<'static>>>>,
}

/// Recorded findings (weakened model)
/// a `Notified` that received a notify_one and is dropped unpolled swallows the notification
pub const W_DROP_LOSES: u32 = 1;
/// `notify_waiters` discards a stored permit
pub const W_WAITERS_CLEARS_PERMIT: u32 = 2;

#[derive(Clone, Copy, Debug, PartialEq, Eq, Hash)]
pub enum Slot {
    Empty,
    /// created, not yet polled / enabled
    Init,
    /// created, then a notify_waiters happened
    InitAll,
    Waiting,
    /// notified by notify_one (true) / notify_waiters (false); second flag: the task has been woken
    Notified(bool, bool),
    /// complete (enable / poll reported it), still held
    Ready,
}

#[derive(Clone, Debug, PartialEq, Eq, Hash)]
pub struct NM {
    permit: bool,
    slot: Vec<Slot>,
    /// wake-ups a notifier still has to deliver: (notifier, waiter)
    to_wake: Vec<(u8, u8)>,
    /// `time`: a trigger is registered / the thread has a live timeout / which has expired
    triggered: bool,
    live: Vec<bool>,
    expired: Vec<bool>,
}

pub struct NotifyFam;

unsafe fn ext<'a, T>(r: &'a T) -> &'static T {
    std::mem::transmute(r)
}

impl NM {
    /// notify_one semantics at one instant on behalf of thread `t` (used for forwarding); the
    /// wake-up itself is delivered by `t` afterwards
    fn forward(&self, t: u8) -> Vec<NM> {
        let ws: Vec<usize> = (0..self.slot.len()).filter(|&i| self.slot[i] == Slot::Waiting).collect();
        if ws.is_empty() {
            let mut n = self.clone();
            n.permit = true;
            vec![n]
        } else {
            ws.into_iter()
                .map(|w| {
                    let mut n = self.clone();
                    n.slot[w] = Slot::Notified(true, false);
                    n.to_wake.push((t, w as u8));
                    n.to_wake.sort();
                    n
                })
                .collect()
        }
    }
}

impl NotifyFam {
    /// First look at the future of thread `t` (enable / poll): the outcomes (state, ready?, did it
    /// consume the permit — which costs the implementation a scheduling point).
    fn look(m: &NM, t: usize) -> Vec<(NM, bool, bool)> {
        let mut out = Vec::new();
        match m.slot[t] {
            Slot::Init => {
                if m.permit {
                    let mut n = m.clone();
                    n.permit = false;
                    n.slot[t] = Slot::Ready;
                    out.push((n, true, true));
                } else {
                    let mut n = m.clone();
                    n.slot[t] = Slot::Waiting;
                    out.push((n, false, false));
                }
            }
            Slot::InitAll => {
                // complete because of the notify_waiters; whether a stored permit is used up as well
                // is not specified
                let mut n = m.clone();
                n.slot[t] = Slot::Ready;
                out.push((n.clone(), true, false));
                if m.permit {
                    n.permit = false;
                    out.push((n, true, false));
                }
            }
            Slot::Waiting => out.push((m.clone(), false, false)),
            Slot::Notified(..) | Slot::Ready => {
                let mut n = m.clone();
                n.slot[t] = Slot::Ready;
                out.push((n, true, false));
            }
            Slot::Empty => {}
        }
        out
    }
}

impl Family for NotifyFam {
    type Op = NOp;
    type Res = NRes;
    type Cfg = ();
    type Objs = NObjs;
    type Locals = NLocals;
    type M = NM;
    const NAME: &'static str = "tnotify";
    const ASYNC: bool = true;

    fn make_objs(_cfg: &(), _n: usize) -> NObjs {
        // harness hygiene: the wrapper's trigger table is a std thread-local that survives executions
        shuttle_tokio_impl_inner::time::clear_triggers();
        NObjs { notify: Notify::new() }
    }
    fn new_locals(_cfg: &(), _t: usize) -> NLocals {
        NLocals { fut: None }
    }
    fn end_thread(_o: &NObjs, l: NLocals, _t: usize) {
        assert!(l.fut.is_none(), "ill-formed program: Notified future alive at the end of its thread");
    }
    fn exec(_o: &NObjs, _l: &mut NLocals, _t: usize, _op: &NOp) -> NRes {
        unreachable!("async family")
    }
    fn exec_async<'a>(o: &'a NObjs, l: &'a mut NLocals, _t: usize, op: &'a NOp) -> Pin<Box<dyn Future<Output = NRes> + 'a>> {
        Box::pin(async move {
            let notify: &'static Notify = unsafe { ext(&o.notify) };
            match op {
                NOp::New => {
                    assert!(l.fut.is_none(), "ill-formed program: second Notified");
                    l.fut = Some(Box::pin(notify.notified()));
                    NRes::Unit
                }
                NOp::Enable => match l.fut.as_mut() {
                    None => NRes::Nothing,
                    Some(f) => NRes::Bool(f.as_mut().enable()),
                },
                NOp::Poll => match l.fut.as_mut() {
                    None => NRes::Nothing,
                    Some(f) => {
                        let r = std::future::poll_fn(|cx| Poll::Ready(f.as_mut().poll(cx))).await;
                        match r {
                            Poll::Ready(()) => {
                                l.fut = None;
                                NRes::Ready
                            }
                            Poll::Pending => NRes::Pending,
                        }
                    }
                },
                NOp::Await => {
                    let mut f = match l.fut.take() {
                        Some(f) => f,
                        None => Box::pin(notify.notified()),
                    };
                    f.as_mut().await;
                    drop(f);
                    NRes::Unit
                }
                NOp::DropFut => match l.fut.take() {
                    None => NRes::Nothing,
                    Some(f) => {
                        drop(f);
                        NRes::Unit
                    }
                },
                NOp::NotifyOne => {
                    notify.notify_one();
                    NRes::Unit
                }
                NOp::NotifyWaiters => {
                    notify.notify_waiters();
                    NRes::Unit
                }
                NOp::Yield => {
                    shuttle_tokio_impl_inner::task::yield_now().await;
                    NRes::Unit
                }
                NOp::TimeoutAwait => {
                    assert!(l.fut.is_none(), "ill-formed program: TimeoutAwait with a held future");
                    match shuttle_tokio_impl_inner::time::timeout(std::time::Duration::from_secs(1), notify.notified()).await {
                        Ok(()) => NRes::Unit,
                        Err(_) => NRes::Elapsed,
                    }
                }
                NOp::TriggerAll => {
                    shuttle_tokio_impl_inner::time::trigger_timeouts(|_| true);
                    NRes::Unit
                }
                NOp::ClearTriggers => {
                    shuttle_tokio_impl_inner::time::clear_triggers();
                    NRes::Unit
                }
            }
        })
    }

    /// the wrapper's wake-ups go through `yield_now`
    fn yields(_op: &NOp) -> Option<bool> {
        None
    }
    /// A task can be cancelled where it is suspended: in `Await` before the notification has been
    /// received (phase 2 = it consumed the permit inside its poll and is about to return Ready) and
    /// in `Yield`.  Everything else runs synchronously inside one poll.
    fn m_abortable(op: &NOp, phase: u8) -> bool {
        match op {
            NOp::Await => phase <= 1,
            NOp::TimeoutAwait => phase == 1,
            NOp::Yield => true,
            _ => false,
        }
    }
    /// A cancelled task drops its `Notified` (the one it awaits, or the one it holds while it sits
    /// in `Yield`).  tokio (Notify, "Cancel safety"): the waiter loses its place; a `notify_one` it
    /// had received but not yet consumed is not lost — the destructor passes it on (`notify_one`
    /// semantics at that instant: another registered waiter, else the stored permit).  Storing the
    /// permit is one atomic step (here); waking another waiter takes a scheduling step of the
    /// cancelled task inside its destructor (`m_cancel_begin` / `m_cancel_step`).
    fn m_on_finish(m: &mut NM, t: usize) {
        let old = m.slot[t];
        m.slot[t] = Slot::Empty;
        m.live[t] = false;
        m.expired[t] = false;
        if matches!(old, Slot::Notified(true, _)) && !wk(W_DROP_LOSES) {
            assert!(!m.slot.iter().any(|s| *s == Slot::Waiting), "model: forwarding to a waiter goes through m_cancel_begin");
            m.permit = true;
        }
    }
    fn m_cancel_begin(m: &NM, t: usize, _op: &NOp, _phase: u8) -> Option<Vec<MStep<NM, ()>>> {
        if matches!(m.slot[t], Slot::Notified(true, _)) && !wk(W_DROP_LOSES) && m.slot.iter().any(|s| *s == Slot::Waiting) {
            let mut n = m.clone();
            n.slot[t] = Slot::Empty;
            n.live[t] = false;
            n.expired[t] = false;
            // flag of the chosen waiter set; its wake-up follows after a scheduling point
            Some(n.forward(t as u8).into_iter().map(|x| MStep::Cont(x, 1)).collect())
        } else {
            None
        }
    }
    fn m_cancel_step(m: &NM, t: usize, _op: &NOp, _cphase: u8, _strict: bool) -> Vec<MStep<NM, ()>> {
        let mut n = m.clone();
        if let Some(pos) = n.to_wake.iter().position(|x| x.0 == t as u8) {
            let (_, w) = n.to_wake.remove(pos);
            if let Slot::Notified(k, _) = n.slot[w as usize] {
                n.slot[w as usize] = Slot::Notified(k, true);
            }
            return vec![MStep::Cont(n, 1)];
        }
        vec![MStep::Done(n, ())]
    }
    fn objects_of(_op: &NOp) -> Vec<u32> {
        vec![0xC20]
    }
    fn m_init(_cfg: &(), n: usize) -> NM {
        NM {
            permit: false,
            slot: vec![Slot::Empty; n],
            to_wake: vec![],
            triggered: false,
            live: vec![false; n],
            expired: vec![false; n],
        }
    }

    fn m_step(m: &NM, t: usize, op: &NOp, phase: u8, strict: bool) -> Vec<MStep<NM, NRes>> {
        let tt = t as u8;
        match op {
            NOp::Yield => vec![MStep::Done(m.clone(), NRes::Unit)],
            NOp::New => {
                let mut n = m.clone();
                n.slot[t] = Slot::Init;
                vec![MStep::Done(n, NRes::Unit)]
            }
            NOp::Enable => {
                if m.slot[t] == Slot::Empty {
                    return vec![MStep::Done(m.clone(), NRes::Nothing)];
                }
                if phase == 1 {
                    return vec![MStep::Done(m.clone(), NRes::Bool(true))];
                }
                Self::look(m, t)
                    .into_iter()
                    .map(|(n, ready, consumed)| if consumed { MStep::Cont(n, 1) } else { MStep::Done(n, NRes::Bool(ready)) })
                    .collect()
            }
            NOp::Poll => {
                if phase == 1 {
                    let mut n = m.clone();
                    n.slot[t] = Slot::Empty;
                    return vec![MStep::Done(n, NRes::Ready)];
                }
                if m.slot[t] == Slot::Empty {
                    return vec![MStep::Done(m.clone(), NRes::Nothing)];
                }
                Self::look(m, t)
                    .into_iter()
                    .map(|(mut n, ready, consumed)| {
                        if consumed {
                            MStep::Cont(n, 1)
                        } else if ready {
                            n.slot[t] = Slot::Empty;
                            MStep::Done(n, NRes::Ready)
                        } else {
                            MStep::Done(n, NRes::Pending)
                        }
                    })
                    .collect()
            }
            NOp::Await => match phase {
                0 => {
                    let mut m0 = m.clone();
                    if m0.slot[t] == Slot::Empty {
                        m0.slot[t] = Slot::Init;
                    }
                    Self::look(&m0, t)
                        .into_iter()
                        .map(|(mut n, ready, consumed)| {
                            if consumed {
                                MStep::Cont(n, 2)
                            } else if ready {
                                n.slot[t] = Slot::Empty;
                                MStep::Done(n, NRes::Unit)
                            } else {
                                MStep::Cont(n, 1)
                            }
                        })
                        .collect()
                }
                1 => match m.slot[t] {
                    // sleeping until the notifier's wake-up arrives (guaranteed to run only then:
                    // `strict`); a task that is polled again for another reason — e.g. its own earlier
                    // `yield_now` — already sees the notification
                    Slot::Notified(_, woken) if woken || !strict => {
                        let mut n = m.clone();
                        n.slot[t] = Slot::Empty;
                        vec![MStep::Done(n, NRes::Unit)]
                    }
                    _ => vec![],
                },
                _ => {
                    let mut n = m.clone();
                    n.slot[t] = Slot::Empty;
                    vec![MStep::Done(n, NRes::Unit)]
                }
            },
            // `Timeout::poll` looks at the expiry first, then polls the future; an expired timeout
            // drops the `Notified` (passing on a notify_one it had received).  With the expiry and the
            // notification both there the wrapper says Elapsed; tokio's own `timeout` polls the
            // future first and would say Ok — the contract-only relation accepts either.
            NOp::TimeoutAwait => match phase {
                0 => {
                    if m.triggered {
                        // born expired: the future is never polled
                        return vec![MStep::Done(m.clone(), NRes::Elapsed)];
                    }
                    let mut m0 = m.clone();
                    m0.slot[t] = Slot::Init;
                    m0.live[t] = true;
                    m0.expired[t] = false;
                    Self::look(&m0, t).into_iter().map(|(n, _ready, consumed)| if consumed { MStep::Cont(n, 2) } else { MStep::Cont(n, 1) }).collect()
                }
                1 => {
                    let mut out = Vec::new();
                    let done = |m: &NM| {
                        let mut n = m.clone();
                        n.slot[t] = Slot::Empty;
                        n.live[t] = false;
                        n.expired[t] = false;
                        n
                    };
                    if m.expired[t] {
                        let n = done(m);
                        match m.slot[t] {
                            Slot::Notified(true, _) if !wk(W_DROP_LOSES) => {
                                for x in n.forward(tt) {
                                    if x.to_wake.iter().any(|e| e.0 == tt) {
                                        out.push(MStep::Cont(x, 3));
                                    } else {
                                        out.push(MStep::Done(x, NRes::Elapsed));
                                    }
                                }
                            }
                            _ => out.push(MStep::Done(n, NRes::Elapsed)),
                        }
                    }
                    if let Slot::Notified(_, woken) = m.slot[t] {
                        if (woken || !strict) && (!m.expired[t] || !strict) {
                            out.push(MStep::Done(done(m), NRes::Unit));
                        }
                    }
                    out
                }
                2 => {
                    let mut n = m.clone();
                    n.slot[t] = Slot::Empty;
                    n.live[t] = false;
                    n.expired[t] = false;
                    vec![MStep::Done(n, NRes::Unit)]
                }
                _ => {
                    let mut n = m.clone();
                    if let Some(pos) = n.to_wake.iter().position(|x| x.0 == tt) {
                        let (_, w) = n.to_wake.remove(pos);
                        if let Slot::Notified(k, _) = n.slot[w as usize] {
                            n.slot[w as usize] = Slot::Notified(k, true);
                        }
                        return vec![MStep::Cont(n, 3)];
                    }
                    vec![MStep::Done(n, NRes::Elapsed)]
                }
            },
            NOp::TriggerAll => {
                let mut n = m.clone();
                n.triggered = true;
                for i in 0..n.live.len() {
                    if n.live[i] {
                        n.expired[i] = true;
                    }
                }
                vec![MStep::Done(n, NRes::Unit)]
            }
            NOp::ClearTriggers => {
                let mut n = m.clone();
                n.triggered = false;
                vec![MStep::Done(n, NRes::Unit)]
            }
            NOp::DropFut => {
                if phase == 1 {
                    // deliver the wake-up of a notification that was passed on
                    let mut n = m.clone();
                    if let Some(pos) = n.to_wake.iter().position(|x| x.0 == tt) {
                        let (_, w) = n.to_wake.remove(pos);
                        if let Slot::Notified(k, _) = n.slot[w as usize] {
                            n.slot[w as usize] = Slot::Notified(k, true);
                        }
                        return vec![MStep::Cont(n, 1)];
                    }
                    return vec![MStep::Done(n, NRes::Unit)];
                }
                let mut n = m.clone();
                let old = n.slot[t];
                n.slot[t] = Slot::Empty;
                match old {
                    Slot::Empty => vec![MStep::Done(n, NRes::Nothing)],
                    Slot::Notified(true, _) if !wk(W_DROP_LOSES) => {
                        // the notification is passed on
                        n.forward(tt).into_iter().map(|x| MStep::Cont(x, 1)).collect()
                    }
                    _ => vec![MStep::Done(n, NRes::Unit)],
                }
            }
            NOp::NotifyOne => {
                if phase == 0 {
                    let ws: Vec<usize> = (0..m.slot.len()).filter(|&i| m.slot[i] == Slot::Waiting).collect();
                    if ws.is_empty() {
                        let mut n = m.clone();
                        n.permit = true;
                        return vec![MStep::Done(n, NRes::Unit)];
                    }
                    ws.into_iter()
                        .map(|w| {
                            let mut n = m.clone();
                            n.slot[w] = Slot::Notified(true, false);
                            n.to_wake.push((tt, w as u8));
                            n.to_wake.sort();
                            MStep::Cont(n, 1)
                        })
                        .collect()
                } else {
                    let mut n = m.clone();
                    if let Some(pos) = n.to_wake.iter().position(|x| x.0 == tt) {
                        let (_, w) = n.to_wake.remove(pos);
                        if let Slot::Notified(k, _) = n.slot[w as usize] {
                            n.slot[w as usize] = Slot::Notified(k, true);
                        }
                        vec![MStep::Cont(n, 1)]
                    } else {
                        vec![MStep::Done(n, NRes::Unit)]
                    }
                }
            }
            NOp::NotifyWaiters => {
                if phase == 0 {
                    let mut n = m.clone();
                    if wk(W_WAITERS_CLEARS_PERMIT) {
                        n.permit = false;
                    }
                    let mut any = false;
                    for i in 0..n.slot.len() {
                        match n.slot[i] {
                            Slot::Waiting => {
                                n.slot[i] = Slot::Notified(false, false);
                                n.to_wake.push((tt, i as u8));
                                any = true;
                            }
                            Slot::Init => {
                                n.slot[i] = Slot::InitAll;
                            }
                            _ => {}
                        }
                    }
                    n.to_wake.sort();
                    // (the call returns later: the wrapper passes a scheduling point per future)
                    let _ = any;
                    vec![MStep::Cont(n, 1)]
                } else {
                    // deliver the wake-ups one by one, in some order
                    let mine: Vec<usize> = (0..m.to_wake.len()).filter(|&i| m.to_wake[i].0 == tt).collect();
                    let mut out = Vec::new();
                    for i in &mine {
                        let mut n = m.clone();
                        let (_, w) = n.to_wake.remove(*i);
                        if let Slot::Notified(k, _) = n.slot[w as usize] {
                            n.slot[w as usize] = Slot::Notified(k, true);
                        }
                        out.push(MStep::Cont(n, 1));
                    }
                    if mine.is_empty() {
                        out.push(MStep::Done(m.clone(), NRes::Unit));
                    }
                    out
                }
            }
        }
    }
}

impl XFamily for NotifyFam {
    fn weakenings(_cfg: &()) -> Vec<(&'static str, u32)> {
        vec![
            ("dropping-a-notified-but-unpolled-Notified-loses-the-notify_one", W_DROP_LOSES),
            ("notify_waiters-discards-the-stored-permit", W_WAITERS_CLEARS_PERMIT),
        ]
    }
    /// every waiter must be reachable by `gen_range(0..k)`, k = number of waiting futures ≤ number
    /// of threads that ever wait
    fn rand_menu(p: &Program<NotifyFam>) -> Vec<u64> {
        let waiters = p.threads.iter().filter(|t| t.iter().any(|o| matches!(o, GOp::Op(NOp::Enable | NOp::Poll | NOp::Await | NOp::TimeoutAwait)))).count();
        let notifies = p.threads.iter().flatten().any(|o| matches!(o, GOp::Op(NOp::NotifyOne)));
        if !notifies || waiters <= 1 {
            vec![0]
        } else if waiters == 2 {
            // range 2: 0 -> 0, 0xAAAA…AB -> 1
            vec![0, 0xAAAA_AAAA_AAAA_AAAB]
        } else {
            // range 2: {0, (rejected, re-draw 0) , 1}; range 3: {0, 1, 2}
            vec![0, 0x5555_5555_5555_5556, 0xAAAA_AAAA_AAAA_AAAB]
        }
    }
}

// ---------------------------------------------------------------------------------------------
// Program generation
// ---------------------------------------------------------------------------------------------

/// Sequences of ≤ k ops in which every future created is awaited, polled to completion or dropped
/// before the thread ends (held: 0 none, 1 a future that may be pending).
fn thread_seqs(k: usize, rich: bool) -> Vec<Vec<NOp>> {
    fn rec(k: usize, rich: bool, cur: &mut Vec<NOp>, held: bool, out: &mut Vec<Vec<NOp>>) {
        if !cur.is_empty() && !held {
            out.push(cur.clone());
        }
        if cur.len() == k {
            return;
        }
        let mut alpha = vec![NOp::NotifyOne, NOp::NotifyWaiters, NOp::Await];
        if held {
            alpha.push(NOp::DropFut);
            alpha.push(NOp::Enable);
            if rich {
                alpha.push(NOp::Poll);
                if matches!(cur.last(), Some(NOp::Enable | NOp::Poll)) {
                    alpha.push(NOp::Yield);
                }
            }
        } else {
            alpha.push(NOp::New);
        }
        for a in alpha {
            let h2 = match a {
                NOp::New => true,
                NOp::Await | NOp::DropFut => false,
                _ => held,
            };
            // a thread does not notify itself while it holds a future it has not looked at in a way
            // that matters less; keep everything — the space is small
            cur.push(a);
            rec(k, rich, cur, h2, out);
            cur.pop();
        }
    }
    let mut out = Vec::new();
    rec(k, rich, &mut Vec::new(), false, &mut out);
    out
}

pub fn program_set(set: &str) -> Vec<Program<NotifyFam>> {
    let thorough = set == "thorough";
    let mut out = Vec::new();
    let waits = |s: &Vec<NOp>| s.iter().any(|o| matches!(o, NOp::Await | NOp::Enable | NOp::Poll | NOp::New));
    let notifies = |s: &Vec<NOp>| s.iter().any(|o| matches!(o, NOp::NotifyOne | NOp::NotifyWaiters));
    // two children
    let (k2, max2) = if thorough { (4, 6) } else { (3, 5) };
    let s = thread_seqs(k2, true);
    for idx in nondecreasing_tuples(s.len(), 2) {
        let ch: Vec<Vec<NOp>> = idx.iter().map(|&i| s[i].clone()).collect();
        if ch[0].len() + ch[1].len() > max2 {
            continue;
        }
        // forced interaction: somebody waits and somebody notifies
        if !(ch.iter().any(|c| waits(c)) && ch.iter().any(|c| notifies(c))) {
            continue;
        }
        out.push(Program::fork_join((), vec![], ch));
    }
    // three children: who gets the notification
    let (k3, max3) = if thorough { (3, 6) } else { (2, 4) };
    let s3 = thread_seqs(k3, thorough);
    for idx in nondecreasing_tuples(s3.len(), 3) {
        let ch: Vec<Vec<NOp>> = idx.iter().map(|&i| s3[i].clone()).collect();
        if ch.iter().map(|c| c.len()).sum::<usize>() > max3 {
            continue;
        }
        if ch.iter().filter(|c| waits(c)).count() < 2 || !ch.iter().any(|c| notifies(c)) {
            continue;
        }
        out.push(Program::fork_join((), vec![], ch));
    }
    // the notification handed on by a dropped future, with main notifying
    for a in [
        vec![NOp::New, NOp::Enable, NOp::Yield, NOp::DropFut],
        vec![NOp::New, NOp::Poll, NOp::Yield, NOp::DropFut],
        vec![NOp::New, NOp::Enable, NOp::Yield, NOp::Await],
        vec![NOp::New, NOp::Enable, NOp::DropFut],
    ] {
        for b in [vec![NOp::Await], vec![NOp::New, NOp::Enable, NOp::Await]] {
            for ms in [vec![NOp::NotifyOne], vec![NOp::NotifyOne, NOp::NotifyOne], vec![NOp::NotifyOne, NOp::NotifyWaiters]] {
                out.push(Program::fork_join((), ms, vec![a.clone(), b.clone()]));
            }
        }
    }
    // a waiter cancelled WHILE notify_waiters is under way (the wake-ups are scheduling points): two
    // registered waiters, the notifier, and the second (or first) waiter dropping its future or being
    // aborted in between (seed C19-notify-waiters-wakes-inside-flag-loop was invisible without these)
    let firsts = [vec![NOp::Await], vec![NOp::New, NOp::Enable, NOp::Await], vec![NOp::New, NOp::Poll, NOp::DropFut]];
    let droppers = [
        vec![NOp::New, NOp::Enable, NOp::Yield, NOp::DropFut],
        vec![NOp::New, NOp::Poll, NOp::Yield, NOp::DropFut],
        vec![NOp::New, NOp::Enable, NOp::DropFut],
        vec![NOp::New, NOp::DropFut],
    ];
    for a in &firsts {
        for b in &droppers {
            for ms in [vec![NOp::NotifyWaiters], vec![NOp::NotifyOne, NOp::NotifyWaiters], vec![NOp::NotifyWaiters, NOp::NotifyOne]] {
                out.push(Program::fork_join((), ms.clone(), vec![a.clone(), b.clone()]));
                out.push(Program::fork_join((), ms, vec![b.clone(), a.clone()]));
            }
        }
    }
    for victim in [1usize, 2] {
        for w in [vec![NOp::Await], vec![NOp::New, NOp::Enable, NOp::Await]] {
            for nt in [vec![NOp::NotifyWaiters], vec![NOp::NotifyWaiters, NOp::NotifyWaiters]] {
                let main = vec![GOp::Spawn(1), GOp::Spawn(2), GOp::Spawn(3), GOp::Abort(victim), GOp::Join(1), GOp::Join(2), GOp::Join(3)];
                let th = |v: &Vec<NOp>| v.iter().cloned().map(GOp::Op).collect::<Vec<_>>();
                out.push(Program { cfg: (), threads: vec![main, th(&w), th(&vec![NOp::Await]), th(&nt)] });
            }
        }
    }
    // cancellation of a waiter that notify_one has chosen (the destructor passes the notification
    // on, waking the other waiter in a scheduling step of its own), of the waiter it has not chosen,
    // and of either while a notifier task is half-way through notify_one / notify_waiters
    let th = |v: &[NOp]| v.iter().cloned().map(GOp::Op).collect::<Vec<_>>();
    let shapes: Vec<Vec<NOp>> = vec![vec![NOp::Await], vec![NOp::New, NOp::Enable, NOp::Await], vec![NOp::New, NOp::Enable, NOp::Yield, NOp::Await]];
    // (a) main notifies, then aborts: the wake-up has been sent, the victim may or may not have consumed it
    for victim in [1usize, 2] {
        for (wi, w) in shapes.iter().enumerate() {
            if !thorough && wi == 2 {
                continue;
            }
            for pre in [vec![NOp::NotifyOne], vec![NOp::NotifyOne, NOp::NotifyWaiters], vec![NOp::NotifyWaiters, NOp::NotifyOne]] {
                for post in [vec![], vec![NOp::NotifyOne]] {
                    if !thorough && pre.len() + post.len() > 2 {
                        continue;
                    }
                    let mut main = vec![GOp::Spawn(1), GOp::Spawn(2)];
                    main.extend(th(&pre));
                    main.push(GOp::Abort(victim));
                    main.extend(th(&post));
                    main.extend([GOp::Join(1), GOp::Join(2)]);
                    out.push(Program { cfg: (), threads: vec![main, th(w), th(&[NOp::Await])] });
                }
            }
        }
    }
    // (b) a notifier task runs beside the abort: two waiters
    for victim in [1usize, 2] {
        for (wi, w) in shapes.iter().enumerate() {
            for nt in [vec![NOp::NotifyOne], vec![NOp::NotifyOne, NOp::NotifyOne], vec![NOp::NotifyOne, NOp::NotifyWaiters], vec![NOp::NotifyWaiters, NOp::NotifyOne]] {
                if !thorough && (wi > 0 || nt.len() > 1) && !(wi == 1 && victim == 1 && nt == vec![NOp::NotifyOne, NOp::NotifyWaiters]) {
                    continue;
                }
                let main = vec![GOp::Spawn(1), GOp::Spawn(2), GOp::Spawn(3), GOp::Abort(victim), GOp::Join(1), GOp::Join(2), GOp::Join(3)];
                out.push(Program { cfg: (), threads: vec![main, th(w), th(&[NOp::Await]), th(&nt)] });
            }
        }
    }
    // (c) three waiters: the notification of the cancelled one goes to one of the two others
    for victim in [1usize, 3] {
        for pre in [vec![NOp::NotifyOne], vec![NOp::NotifyOne, NOp::NotifyOne]] {
            for post in [vec![], vec![NOp::NotifyOne], vec![NOp::NotifyWaiters]] {
                // (17 k executions for the one kept in quick; the others 40 k – 200 k each)
                if !thorough && !(victim == 3 && pre.len() == 1 && post == vec![NOp::NotifyWaiters]) {
                    continue;
                }
                let mut main = vec![GOp::Spawn(1), GOp::Spawn(2), GOp::Spawn(3)];
                main.extend(th(&pre));
                main.push(GOp::Abort(victim));
                main.extend(th(&post));
                main.extend([GOp::Join(1), GOp::Join(2), GOp::Join(3)]);
                out.push(Program { cfg: (), threads: vec![main, th(&[NOp::Await]), th(&[NOp::Await]), th(&[NOp::Await])] });
            }
        }
    }
    // (d) cancellation by `time::timeout` + `trigger_timeouts`.  No execution of these programs may
    // fail (a failed execution leaks its timeout-table entry into the worker's later executions, see
    // fam_task.rs): every wait is inside a timeout and main triggers all of them before it joins.
    {
        use NOp::*;
        let wrap = |mid: &[GOp<NOp>], kids: Vec<Vec<NOp>>| {
            let k = kids.len();
            let mut main: Vec<GOp<NOp>> = (1..=k).map(GOp::Spawn).collect();
            // (spawning has no scheduling point: without the yield every timeout would be born expired)
            main.push(GOp::Op(Yield));
            main.extend(mid.iter().cloned());
            if !mid.is_empty() {
                // (nor is there one between the wake-up sent by notify_one and the trigger)
                main.push(GOp::Op(Yield));
            }
            main.push(GOp::Op(TriggerAll));
            main.extend((1..=k).map(GOp::Join));
            main.push(GOp::Op(ClearTriggers));
            // where did the notifications end up?  (`enable` reports a stored permit without blocking)
            main.extend([GOp::Op(New), GOp::Op(Enable), GOp::Op(DropFut)]);
            let mut threads = vec![main];
            threads.extend(kids.iter().map(|c| th(c)));
            Program { cfg: (), threads }
        };
        let one = [GOp::Op(NotifyOne)];
        let two = [GOp::Op(NotifyOne), GOp::Op(NotifyOne)];
        let ow = [GOp::Op(NotifyOne), GOp::Op(NotifyWaiters)];
        let trig_clear_one = [GOp::Op(TriggerAll), GOp::Op(ClearTriggers), GOp::Op(NotifyOne)];
        let one_abort = [GOp::Op(NotifyOne), GOp::Abort(1)];
        // one waiter
        out.push(wrap(&one, vec![vec![TimeoutAwait]]));
        out.push(wrap(&one, vec![vec![TimeoutAwait, TimeoutAwait]]));
        out.push(wrap(&trig_clear_one, vec![vec![TimeoutAwait, TimeoutAwait]]));
        // two waiters: the one chosen by notify_one may time out before it consumes the notification
        out.push(wrap(&one, vec![vec![TimeoutAwait], vec![TimeoutAwait]]));
        out.push(wrap(&one, vec![vec![TimeoutAwait], vec![TimeoutAwait, TimeoutAwait]]));
        out.push(wrap(&one_abort, vec![vec![TimeoutAwait], vec![TimeoutAwait]]));
        out.push(wrap(&[], vec![vec![TimeoutAwait], vec![TimeoutAwait], vec![NotifyOne]]));
        if thorough {
            out.push(wrap(&two, vec![vec![TimeoutAwait], vec![TimeoutAwait, TimeoutAwait]]));
            out.push(wrap(&ow, vec![vec![TimeoutAwait], vec![TimeoutAwait, TimeoutAwait]]));
            out.push(wrap(&trig_clear_one, vec![vec![TimeoutAwait], vec![TimeoutAwait, TimeoutAwait]]));
            out.push(wrap(&[], vec![vec![TimeoutAwait], vec![TimeoutAwait], vec![NotifyOne, NotifyOne]]));
            out.push(wrap(&[], vec![vec![TimeoutAwait], vec![TimeoutAwait], vec![NotifyOne, NotifyWaiters]]));
            out.push(wrap(&[], vec![vec![TimeoutAwait], vec![TimeoutAwait, TimeoutAwait], vec![NotifyOne]]));
            out.push(wrap(&one, vec![vec![TimeoutAwait], vec![TimeoutAwait], vec![TimeoutAwait]]));
        }
    }
    if thorough {
        // three waiters and a notifier task
        for victim in [1usize, 2] {
            for nt in [vec![NOp::NotifyOne, NOp::NotifyOne], vec![NOp::NotifyOne, NOp::NotifyWaiters]] {
                let main = vec![GOp::Spawn(1), GOp::Spawn(2), GOp::Spawn(3), GOp::Spawn(4), GOp::Abort(victim), GOp::Join(1), GOp::Join(2), GOp::Join(3), GOp::Join(4)];
                out.push(Program { cfg: (), threads: vec![main, th(&[NOp::Await]), th(&[NOp::Await]), th(&[NOp::Await]), th(&nt)] });
            }
        }
    }
    out.sort_by_key(|p| p.size());
    out
}
