//! Family `tnotify`: shuttle-tokio's `sync::Notify` against tokio's documented contract.
//!
//! tokio::sync::Notify (docs): `notify_one` wakes one task that is *waiting* (its `Notified` future
//! has been polled or `enable`d and has not completed); if there is none, a permit is stored — at
//! most one — and the next `notified().await` (first poll / `enable`) consumes it and completes
//! immediately.  `notify_waiters` completes every `Notified` future that exists at that moment,
//! polled or not, and stores nothing.  `enable` registers the future without a waker and reports
//! whether it is already complete.  No notification is ever lost: a `Notified` future that received
//! a `notify_one` and is dropped before it was polled to completion passes the notification on
//! (to another waiter, else as the stored permit).
//!
//! The wrapper picks the waiter to wake with `shuttle::rand`; the explorer therefore branches over a
//! data menu that reaches every waiter (see `rand_menu`).

use crate::driver::{wk, XFamily};
use shuttle_tokio_impl_inner::sync::futures::Notified;
use shuttle_tokio_impl_inner::sync::Notify;
use std::future::Future;
use std::pin::Pin;
use std::task::Poll;
use vx::prog::*;

#[derive(Clone, Debug, PartialEq, Eq, Hash)]
pub enum NOp {
    /// `let f = notify.notified()` (kept by this thread)
    New,
    /// `f.as_mut().enable()`
    Enable,
    /// poll `f` once
    Poll,
    /// `f.await` — or `notify.notified().await` if the thread keeps no future
    Await,
    /// `drop(f)`
    DropFut,
    NotifyOne,
    NotifyWaiters,
    /// `task::yield_now().await` — the only scheduling point a thread can put between `enable` and
    /// the drop of its future (neither has one of its own)
    Yield,
}

#[derive(Clone, Debug, PartialEq, Eq, Hash, PartialOrd, Ord)]
pub enum NRes {
    Unit,
    Bool(bool),
    Ready,
    Pending,
    Nothing,
}

pub struct NObjs {
    notify: Notify,
}

pub struct NLocals {
    // borrows NObjs::notify (which outlives every task's locals)
    fut: Option<Pin<Box<Notified<'static>>>>,
}

/// Recorded findings (weakened model)
/// a `Notified` that received a notify_one and is dropped unpolled swallows the notification
pub const W_DROP_LOSES: u32 = 1;
/// `notify_waiters` discards a stored permit
pub const W_WAITERS_CLEARS_PERMIT: u32 = 2;

#[derive(Clone, Copy, Debug, PartialEq, Eq, Hash)]
pub enum Slot {
    Empty,
    /// created, not yet polled / enabled
    Init,
    /// created, then a notify_waiters happened
    InitAll,
    Waiting,
    /// notified by notify_one (true) / notify_waiters (false); second flag: the task has been woken
    Notified(bool, bool),
    /// complete (enable / poll reported it), still held
    Ready,
}

#[derive(Clone, Debug, PartialEq, Eq, Hash)]
pub struct NM {
    permit: bool,
    slot: Vec<Slot>,
    /// wake-ups a notifier still has to deliver: (notifier, waiter)
    to_wake: Vec<(u8, u8)>,
}

pub struct NotifyFam;

unsafe fn ext<'a, T>(r: &'a T) -> &'static T {
    std::mem::transmute(r)
}

impl NM {
    /// notify_one semantics at one instant on behalf of thread `t` (used for forwarding); the
    /// wake-up itself is delivered by `t` afterwards
    fn forward(&self, t: u8) -> Vec<NM> {
        let ws: Vec<usize> = (0..self.slot.len()).filter(|&i| self.slot[i] == Slot::Waiting).collect();
        if ws.is_empty() {
            let mut n = self.clone();
            n.permit = true;
            vec![n]
        } else {
            ws.into_iter()
                .map(|w| {
                    let mut n = self.clone();
                    n.slot[w] = Slot::Notified(true, false);
                    n.to_wake.push((t, w as u8));
                    n.to_wake.sort();
                    n
                })
                .collect()
        }
    }
}

impl NotifyFam {
    /// First look at the future of thread `t` (enable / poll): the outcomes (state, ready?, did it
    /// consume the permit — which costs the implementation a scheduling point).
    fn look(m: &NM, t: usize) -> Vec<(NM, bool, bool)> {
        let mut out = Vec::new();
        match m.slot[t] {
            Slot::Init => {
                if m.permit {
                    let mut n = m.clone();
                    n.permit = false;
                    n.slot[t] = Slot::Ready;
                    out.push((n, true, true));
                } else {
                    let mut n = m.clone();
                    n.slot[t] = Slot::Waiting;
                    out.push((n, false, false));
                }
            }
            Slot::InitAll => {
                // complete because of the notify_waiters; whether a stored permit is used up as well
                // is not specified
                let mut n = m.clone();
                n.slot[t] = Slot::Ready;
                out.push((n.clone(), true, false));
                if m.permit {
                    n.permit = false;
                    out.push((n, true, false));
                }
            }
            Slot::Waiting => out.push((m.clone(), false, false)),
            Slot::Notified(..) | Slot::Ready => {
                let mut n = m.clone();
                n.slot[t] = Slot::Ready;
                out.push((n, true, false));
            }
            Slot::Empty => {}
        }
        out
    }
}

impl Family for NotifyFam {
    type Op = NOp;
    type Res = NRes;
    type Cfg = ();
    type Objs = NObjs;
    type Locals = NLocals;
    type M = NM;
    const NAME: &'static str = "tnotify";
    const ASYNC: bool = true;

    fn make_objs(_cfg: &(), _n: usize) -> NObjs {
        NObjs { notify: Notify::new() }
    }
    fn new_locals(_cfg: &(), _t: usize) -> NLocals {
        NLocals { fut: None }
    }
    fn end_thread(_o: &NObjs, l: NLocals, _t: usize) {
        assert!(l.fut.is_none(), "ill-formed program: Notified future alive at the end of its thread");
    }
    fn exec(_o: &NObjs, _l: &mut NLocals, _t: usize, _op: &NOp) -> NRes {
        unreachable!("async family")
    }
    fn exec_async<'a>(o: &'a NObjs, l: &'a mut NLocals, _t: usize, op: &'a NOp) -> Pin<Box<dyn Future<Output = NRes> + 'a>> {
        Box::pin(async move {
            let notify: &'static Notify = unsafe { ext(&o.notify) };
            match op {
                NOp::New => {
                    assert!(l.fut.is_none(), "ill-formed program: second Notified");
                    l.fut = Some(Box::pin(notify.notified()));
                    NRes::Unit
                }
                NOp::Enable => match l.fut.as_mut() {
                    None => NRes::Nothing,
                    Some(f) => NRes::Bool(f.as_mut().enable()),
                },
                NOp::Poll => match l.fut.as_mut() {
                    None => NRes::Nothing,
                    Some(f) => {
                        let r = std::future::poll_fn(|cx| Poll::Ready(f.as_mut().poll(cx))).await;
                        match r {
                            Poll::Ready(()) => {
                                l.fut = None;
                                NRes::Ready
                            }
                            Poll::Pending => NRes::Pending,
                        }
                    }
                },
                NOp::Await => {
                    let mut f = match l.fut.take() {
                        Some(f) => f,
                        None => Box::pin(notify.notified()),
                    };
                    f.as_mut().await;
                    drop(f);
                    NRes::Unit
                }
                NOp::DropFut => match l.fut.take() {
                    None => NRes::Nothing,
                    Some(f) => {
                        drop(f);
                        NRes::Unit
                    }
                },
                NOp::NotifyOne => {
                    notify.notify_one();
                    NRes::Unit
                }
                NOp::NotifyWaiters => {
                    notify.notify_waiters();
                    NRes::Unit
                }
                NOp::Yield => {
                    shuttle_tokio_impl_inner::task::yield_now().await;
                    NRes::Unit
                }
            }
        })
    }

    /// the wrapper's wake-ups go through `yield_now`
    fn yields(_op: &NOp) -> Option<bool> {
        None
    }
    /// A task can be cancelled where it is suspended: in `Await` before the notification has been
    /// received (phase 2 = it consumed the permit inside its poll and is about to return Ready) and
    /// in `Yield`.  Everything else runs synchronously inside one poll.
    fn m_abortable(op: &NOp, phase: u8) -> bool {
        match op {
            NOp::Await => phase <= 1,
            NOp::Yield => true,
            _ => false,
        }
    }
    /// A cancelled task drops its `Notified` (programs with `Abort` use `notify_waiters` only, so
    /// the dropped future never has a `notify_one` to pass on — that path has scheduling points of
    /// its own and is exercised by `DropFut`).
    fn m_on_finish(m: &mut NM, t: usize) {
        assert!(!matches!(m.slot[t], Slot::Notified(true, _)), "model: cancellation of a waiter notified by notify_one is not modelled");
        m.slot[t] = Slot::Empty;
    }
    fn objects_of(_op: &NOp) -> Vec<u32> {
        vec![0xC20]
    }
    fn m_init(_cfg: &(), n: usize) -> NM {
        NM {
            permit: false,
            slot: vec![Slot::Empty; n],
            to_wake: vec![],
        }
    }

    fn m_step(m: &NM, t: usize, op: &NOp, phase: u8, strict: bool) -> Vec<MStep<NM, NRes>> {
        let tt = t as u8;
        match op {
            NOp::Yield => vec![MStep::Done(m.clone(), NRes::Unit)],
            NOp::New => {
                let mut n = m.clone();
                n.slot[t] = Slot::Init;
                vec![MStep::Done(n, NRes::Unit)]
            }
            NOp::Enable => {
                if m.slot[t] == Slot::Empty {
                    return vec![MStep::Done(m.clone(), NRes::Nothing)];
                }
                if phase == 1 {
                    return vec![MStep::Done(m.clone(), NRes::Bool(true))];
                }
                Self::look(m, t)
                    .into_iter()
                    .map(|(n, ready, consumed)| if consumed { MStep::Cont(n, 1) } else { MStep::Done(n, NRes::Bool(ready)) })
                    .collect()
            }
            NOp::Poll => {
                if phase == 1 {
                    let mut n = m.clone();
                    n.slot[t] = Slot::Empty;
                    return vec![MStep::Done(n, NRes::Ready)];
                }
                if m.slot[t] == Slot::Empty {
                    return vec![MStep::Done(m.clone(), NRes::Nothing)];
                }
                Self::look(m, t)
                    .into_iter()
                    .map(|(mut n, ready, consumed)| {
                        if consumed {
                            MStep::Cont(n, 1)
                        } else if ready {
                            n.slot[t] = Slot::Empty;
                            MStep::Done(n, NRes::Ready)
                        } else {
                            MStep::Done(n, NRes::Pending)
                        }
                    })
                    .collect()
            }
            NOp::Await => match phase {
                0 => {
                    let mut m0 = m.clone();
                    if m0.slot[t] == Slot::Empty {
                        m0.slot[t] = Slot::Init;
                    }
                    Self::look(&m0, t)
                        .into_iter()
                        .map(|(mut n, ready, consumed)| {
                            if consumed {
                                MStep::Cont(n, 2)
                            } else if ready {
                                n.slot[t] = Slot::Empty;
                                MStep::Done(n, NRes::Unit)
                            } else {
                                MStep::Cont(n, 1)
                            }
                        })
                        .collect()
                }
                1 => match m.slot[t] {
                    // sleeping until the notifier's wake-up arrives (guaranteed to run only then:
                    // `strict`); a task that is polled again for another reason — e.g. its own earlier
                    // `yield_now` — already sees the notification
                    Slot::Notified(_, woken) if woken || !strict => {
                        let mut n = m.clone();
                        n.slot[t] = Slot::Empty;
                        vec![MStep::Done(n, NRes::Unit)]
                    }
                    _ => vec![],
                },
                _ => {
                    let mut n = m.clone();
                    n.slot[t] = Slot::Empty;
                    vec![MStep::Done(n, NRes::Unit)]
                }
            },
            NOp::DropFut => {
                if phase == 1 {
                    // deliver the wake-up of a notification that was passed on
                    let mut n = m.clone();
                    if let Some(pos) = n.to_wake.iter().position(|x| x.0 == tt) {
                        let (_, w) = n.to_wake.remove(pos);
                        if let Slot::Notified(k, _) = n.slot[w as usize] {
                            n.slot[w as usize] = Slot::Notified(k, true);
                        }
                        return vec![MStep::Cont(n, 1)];
                    }
                    return vec![MStep::Done(n, NRes::Unit)];
                }
                let mut n = m.clone();
                let old = n.slot[t];
                n.slot[t] = Slot::Empty;
                match old {
                    Slot::Empty => vec![MStep::Done(n, NRes::Nothing)],
                    Slot::Notified(true, _) if !wk(W_DROP_LOSES) => {
                        // the notification is passed on
                        n.forward(tt).into_iter().map(|x| MStep::Cont(x, 1)).collect()
                    }
                    _ => vec![MStep::Done(n, NRes::Unit)],
                }
            }
            NOp::NotifyOne => {
                if phase == 0 {
                    let ws: Vec<usize> = (0..m.slot.len()).filter(|&i| m.slot[i] == Slot::Waiting).collect();
                    if ws.is_empty() {
                        let mut n = m.clone();
                        n.permit = true;
                        return vec![MStep::Done(n, NRes::Unit)];
                    }
                    ws.into_iter()
                        .map(|w| {
                            let mut n = m.clone();
                            n.slot[w] = Slot::Notified(true, false);
                            n.to_wake.push((tt, w as u8));
                            n.to_wake.sort();
                            MStep::Cont(n, 1)
                        })
                        .collect()
                } else {
                    let mut n = m.clone();
                    if let Some(pos) = n.to_wake.iter().position(|x| x.0 == tt) {
                        let (_, w) = n.to_wake.remove(pos);
                        if let Slot::Notified(k, _) = n.slot[w as usize] {
                            n.slot[w as usize] = Slot::Notified(k, true);
                        }
                        vec![MStep::Cont(n, 1)]
                    } else {
                        vec![MStep::Done(n, NRes::Unit)]
                    }
                }
            }
            NOp::NotifyWaiters => {
                if phase == 0 {
                    let mut n = m.clone();
                    if wk(W_WAITERS_CLEARS_PERMIT) {
                        n.permit = false;
                    }
                    let mut any = false;
                    for i in 0..n.slot.len() {
                        match n.slot[i] {
                            Slot::Waiting => {
                                n.slot[i] = Slot::Notified(false, false);
                                n.to_wake.push((tt, i as u8));
                                any = true;
                            }
                            Slot::Init => {
                                n.slot[i] = Slot::InitAll;
                            }
                            _ => {}
                        }
                    }
                    n.to_wake.sort();
                    // (the call returns later: the wrapper passes a scheduling point per future)
                    let _ = any;
                    vec![MStep::Cont(n, 1)]
                } else {
                    // deliver the wake-ups one by one, in some order
                    let mine: Vec<usize> = (0..m.to_wake.len()).filter(|&i| m.to_wake[i].0 == tt).collect();
                    let mut out = Vec::new();
                    for i in &mine {
                        let mut n = m.clone();
                        let (_, w) = n.to_wake.remove(*i);
                        if let Slot::Notified(k, _) = n.slot[w as usize] {
                            n.slot[w as usize] = Slot::Notified(k, true);
                        }
                        out.push(MStep::Cont(n, 1));
                    }
                    if mine.is_empty() {
                        out.push(MStep::Done(m.clone(), NRes::Unit));
                    }
                    out
                }
            }
        }
    }
}

impl XFamily for NotifyFam {
    fn weakenings(_cfg: &()) -> Vec<(&'static str, u32)> {
        vec![
            ("dropping-a-notified-but-unpolled-Notified-loses-the-notify_one", W_DROP_LOSES),
            ("notify_waiters-discards-the-stored-permit", W_WAITERS_CLEARS_PERMIT),
        ]
    }
    /// every waiter must be reachable by `gen_range(0..k)`, k = number of waiting futures ≤ number
    /// of threads that ever wait
    fn rand_menu(p: &Program<NotifyFam>) -> Vec<u64> {
        let waiters = p.threads.iter().filter(|t| t.iter().any(|o| matches!(o, GOp::Op(NOp::Enable | NOp::Poll | NOp::Await)))).count();
        let notifies = p.threads.iter().flatten().any(|o| matches!(o, GOp::Op(NOp::NotifyOne)));
        if !notifies || waiters <= 1 {
            vec![0]
        } else if waiters == 2 {
            // range 2: 0 -> 0, 0xAAAA…AB -> 1
            vec![0, 0xAAAA_AAAA_AAAA_AAAB]
        } else {
            // range 2: {0, (rejected, re-draw 0) , 1}; range 3: {0, 1, 2}
            vec![0, 0x5555_5555_5555_5556, 0xAAAA_AAAA_AAAA_AAAB]
        }
    }
}

// ---------------------------------------------------------------------------------------------
// Program generation
// ---------------------------------------------------------------------------------------------

/// Sequences of ≤ k ops in which every future created is awaited, polled to completion or dropped
/// before the thread ends (held: 0 none, 1 a future that may be pending).
fn thread_seqs(k: usize, rich: bool) -> Vec<Vec<NOp>> {
    fn rec(k: usize, rich: bool, cur: &mut Vec<NOp>, held: bool, out: &mut Vec<Vec<NOp>>) {
        if !cur.is_empty() && !held {
            out.push(cur.clone());
        }
        if cur.len() == k {
            return;
        }
        let mut alpha = vec![NOp::NotifyOne, NOp::NotifyWaiters, NOp::Await];
        if held {
            alpha.push(NOp::DropFut);
            alpha.push(NOp::Enable);
            if rich {
                alpha.push(NOp::Poll);
                if matches!(cur.last(), Some(NOp::Enable | NOp::Poll)) {
                    alpha.push(NOp::Yield);
                }
            }
        } else {
            alpha.push(NOp::New);
        }
        for a in alpha {
            let h2 = match a {
                NOp::New => true,
                NOp::Await | NOp::DropFut => false,
                _ => held,
            };
            // a thread does not notify itself while it holds a future it has not looked at in a way
            // that matters less; keep everything — the space is small
            cur.push(a);
            rec(k, rich, cur, h2, out);
            cur.pop();
        }
    }
    let mut out = Vec::new();
    rec(k, rich, &mut Vec::new(), false, &mut out);
    out
}

pub fn program_set(set: &str) -> Vec<Program<NotifyFam>> {
    let thorough = set == "thorough";
    let mut out = Vec::new();
    let waits = |s: &Vec<NOp>| s.iter().any(|o| matches!(o, NOp::Await | NOp::Enable | NOp::Poll | NOp::New));
    let notifies = |s: &Vec<NOp>| s.iter().any(|o| matches!(o, NOp::NotifyOne | NOp::NotifyWaiters));
    // two children
    let (k2, max2) = if thorough { (4, 6) } else { (3, 5) };
    let s = thread_seqs(k2, true);
    for idx in nondecreasing_tuples(s.len(), 2) {
        let ch: Vec<Vec<NOp>> = idx.iter().map(|&i| s[i].clone()).collect();
        if ch[0].len() + ch[1].len() > max2 {
            continue;
        }
        // forced interaction: somebody waits and somebody notifies
        if !(ch.iter().any(|c| waits(c)) && ch.iter().any(|c| notifies(c))) {
            continue;
        }
        out.push(Program::fork_join((), vec![], ch));
    }
    // three children: who gets the notification
    let (k3, max3) = if thorough { (3, 6) } else { (2, 4) };
    let s3 = thread_seqs(k3, thorough);
    for idx in nondecreasing_tuples(s3.len(), 3) {
        let ch: Vec<Vec<NOp>> = idx.iter().map(|&i| s3[i].clone()).collect();
        if ch.iter().map(|c| c.len()).sum::<usize>() > max3 {
            continue;
        }
        if ch.iter().filter(|c| waits(c)).count() < 2 || !ch.iter().any(|c| notifies(c)) {
            continue;
        }
        out.push(Program::fork_join((), vec![], ch));
    }
    // the notification handed on by a dropped future, with main notifying
    for a in [
        vec![NOp::New, NOp::Enable, NOp::Yield, NOp::DropFut],
        vec![NOp::New, NOp::Poll, NOp::Yield, NOp::DropFut],
        vec![NOp::New, NOp::Enable, NOp::Yield, NOp::Await],
        vec![NOp::New, NOp::Enable, NOp::DropFut],
    ] {
        for b in [vec![NOp::Await], vec![NOp::New, NOp::Enable, NOp::Await]] {
            for ms in [vec![NOp::NotifyOne], vec![NOp::NotifyOne, NOp::NotifyOne], vec![NOp::NotifyOne, NOp::NotifyWaiters]] {
                out.push(Program::fork_join((), ms, vec![a.clone(), b.clone()]));
            }
        }
    }
    // a waiter cancelled WHILE notify_waiters is under way (the wake-ups are scheduling points): two
    // registered waiters, the notifier, and the second (or first) waiter dropping its future or being
    // aborted in between (seed C19-notify-waiters-wakes-inside-flag-loop was invisible without these)
    let firsts = [vec![NOp::Await], vec![NOp::New, NOp::Enable, NOp::Await], vec![NOp::New, NOp::Poll, NOp::DropFut]];
    let droppers = [
        vec![NOp::New, NOp::Enable, NOp::Yield, NOp::DropFut],
        vec![NOp::New, NOp::Poll, NOp::Yield, NOp::DropFut],
        vec![NOp::New, NOp::Enable, NOp::DropFut],
        vec![NOp::New, NOp::DropFut],
    ];
    for a in &firsts {
        for b in &droppers {
            for ms in [vec![NOp::NotifyWaiters], vec![NOp::NotifyOne, NOp::NotifyWaiters], vec![NOp::NotifyWaiters, NOp::NotifyOne]] {
                out.push(Program::fork_join((), ms.clone(), vec![a.clone(), b.clone()]));
                out.push(Program::fork_join((), ms, vec![b.clone(), a.clone()]));
            }
        }
    }
    for victim in [1usize, 2] {
        for w in [vec![NOp::Await], vec![NOp::New, NOp::Enable, NOp::Await]] {
            for nt in [vec![NOp::NotifyWaiters], vec![NOp::NotifyWaiters, NOp::NotifyWaiters]] {
                let main = vec![GOp::Spawn(1), GOp::Spawn(2), GOp::Spawn(3), GOp::Abort(victim), GOp::Join(1), GOp::Join(2), GOp::Join(3)];
                let th = |v: &Vec<NOp>| v.iter().cloned().map(GOp::Op).collect::<Vec<_>>();
                out.push(Program { cfg: (), threads: vec![main, th(&w), th(&vec![NOp::Await]), th(&nt)] });
            }
        }
    }
    out.sort_by_key(|p| p.size());
    out
}
