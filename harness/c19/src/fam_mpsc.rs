//! Families `tmpsc` (every program thread is a task) and `tmpsc_thr` (every program thread is a
//! plain thread): shuttle-tokio's `sync::mpsc` against a channel model written from tokio's
//! documentation.
//!
//! The contract (tokio::sync::mpsc docs): values are delivered exactly once, in the order in which
//! they were sent; a bounded channel holds at most `cap` values, counting from the moment a sender
//! obtains its slot until the receiver has taken the value out by *any* receive method; senders that
//! have to wait for a slot are served first-come first-served (tokio's semaphore is fair) and
//! `try_send` never overtakes a waiting sender; `close()` and dropping the receiver make every later
//! send fail while values already in the channel are still delivered; once every sender is gone and
//! the buffer is drained `recv` yields `None` and `try_recv` `Disconnected`; `try_recv` yields `Empty`
//! only if the channel holds no value whose send has taken effect.
//!
//! Linearizability is judged exactly: a send takes its place in the order when the value enters the
//! buffer (in one of the sender's own steps) and becomes visible to the receiver at some later step
//! of the sender, at the latest when it returns or when a send ordered after it returns.  "Who can
//! run" is judged with the weaker guarantee that the receiver is woken once more sends have
//! *returned* than values have been taken (`strict`).
//!
//! Cancellation of a waiting `send` / `recv`: by `JoinHandle::abort` and, for `recv`, by an expired
//! `time::timeout` (`TimeoutRecv` + `TriggerAll`): tokio documents both as cancel safe — no message
//! is lost, a slot that had been handed over goes to the next sender in line.

use crate::driver::{wk, XFamily};
use shuttle_tokio_impl_inner::sync::mpsc;
use std::cell::RefCell;
use std::future::Future;
use std::pin::Pin;
use vx::prog::*;

#[derive(Clone, Debug, PartialEq, Eq, Hash)]
pub enum MOp {
    /// `tx.send(v).await` (bounded)
    Send(u8),
    /// `tx.blocking_send(v)` (bounded; only in threads / `spawn_blocking`-style tasks)
    BlockingSend(u8),
    /// `tx.try_send(v)` (bounded)
    TrySend(u8),
    /// `UnboundedSender::send(v)`
    USend(u8),
    /// `rx.recv().await`
    Recv,
    /// `rx.blocking_recv()`
    BlockingRecv,
    TryRecv,
    /// `rx.close()`
    Close,
    /// `tx.capacity()` (bounded)
    Capacity,
    DropTx,
    DropRx,
    /// `time::timeout(1s, rx.recv()).await`: the value / `None` / `Elapsed`
    TimeoutRecv,
    /// `time::trigger_timeouts(|_| true)` / `time::clear_triggers()`
    TriggerAll,
    ClearTriggers,
    /// `task::yield_now().await`
    Yield,
}

#[derive(Clone, Debug, PartialEq, Eq, Hash, PartialOrd, Ord)]
pub enum MRes {
    Elapsed,
    Unit,
    Ok,
    /// SendError / TrySendError::Closed
    Closed,
    Full,
    Val(u8),
    /// recv → None
    None,
    Empty,
    Disconnected,
    Num(usize),
}

#[derive(Clone, Debug)]
pub struct MCfg {
    /// None = `unbounded_channel()`, Some(c) = `channel(c)`
    pub cap: Option<usize>,
    /// threads that own a sender handle from the start
    pub tx_threads: Vec<usize>,
}

enum Tx {
    B(mpsc::Sender<u8>),
    U(mpsc::UnboundedSender<u8>),
}

enum Rx {
    B(mpsc::Receiver<u8>),
    U(mpsc::UnboundedReceiver<u8>),
}

pub struct MObjs {
    /// one cell per thread: a sender handle is only ever touched by its thread
    tx: Vec<RefCell<Option<Tx>>>,
    rx: RefCell<Option<Rx>>,
}

/// Recorded finding: a value whose send has returned can be invisible to `try_recv` while an
/// *earlier* send is still between "value in the buffer" and "receiver notified".
pub const W_PUBLISH_LAG: u32 = 1;
/// Recorded finding (DESIGN.md F3): `blocking_recv` on a bounded channel takes the value out but
/// never gives the slot back.
pub const W_BLOCKING_RECV_LEAK: u32 = 2;

#[derive(Clone, Debug, PartialEq, Eq, Hash)]
pub struct MM {
    cap: Option<u8>,
    /// values in the order they entered the channel; flag = visible to the receiver
    buf: Vec<(u8, bool)>,
    /// slots in use: obtained by a sender (value buffered or about to be) and not yet given back
    used: u8,
    /// senders waiting for a slot, first come first served
    sendq: Vec<u8>,
    /// waiting senders that have been handed a slot by a receive
    granted: Vec<u8>,
    tx_alive: Vec<bool>,
    /// the last sender's drop has taken effect
    no_senders: bool,
    /// `close()` was called or the receiver was dropped
    rx_closed: bool,
    /// value taken out by the receive operation in progress
    rx_val: Option<u8>,
    /// returned sends minus values taken (never below 0)
    vis: u8,
    /// `time`: a trigger is registered / the receiver's timeout is live / has expired
    triggered: bool,
    /// (the thread that owns it)
    live: Option<u8>,
    expired: bool,
}

impl MM {
    fn chan_closed(&self) -> bool {
        self.rx_closed || self.no_senders
    }
    /// make the value `v` and everything ordered before it visible
    fn commit(&mut self, v: u8) {
        if let Some(pos) = self.buf.iter().position(|e| e.0 == v) {
            for e in self.buf.iter_mut().take(pos + 1) {
                e.1 = true;
            }
        }
        // if the value is no longer in the buffer it has been received, hence was visible
    }
    fn poppable(&self, strict: bool) -> bool {
        match self.buf.first() {
            Some((_, true)) => !strict || self.vis > 0,
            _ => false,
        }
    }
    fn pop(&mut self) {
        let (v, _) = self.buf.remove(0);
        self.vis = self.vis.saturating_sub(1);
        self.rx_val = Some(v);
    }
    fn room(&self) -> bool {
        match self.cap {
            None => true,
            Some(c) => self.sendq.is_empty() && self.used < c,
        }
    }
    /// the receive in progress gives its slot back; the longest-waiting sender gets it
    fn give_back(&mut self) {
        if self.cap.is_some() {
            self.used -= 1;
            if !self.rx_closed && !self.sendq.is_empty() {
                let h = self.sendq.remove(0);
                self.granted.push(h);
                self.granted.sort();
                self.used += 1;
            }
        }
    }
}

pub struct MpscFam<const A: bool>;

fn take_tx(o: &MObjs, t: usize) -> Tx {
    o.tx[t].borrow_mut().take().expect("sender op without handle")
}
fn put_tx(o: &MObjs, t: usize, h: Tx) {
    *o.tx[t].borrow_mut() = Some(h);
}
fn take_rx(o: &MObjs) -> Rx {
    o.rx.borrow_mut().take().expect("receiver op without receiver")
}
fn put_rx(o: &MObjs, h: Rx) {
    *o.rx.borrow_mut() = Some(h);
}

impl<const A: bool> Family for MpscFam<A> {
    type Op = MOp;
    type Res = MRes;
    type Cfg = MCfg;
    type Objs = MObjs;
    type Locals = ();
    type M = MM;
    const NAME: &'static str = if A { "tmpsc" } else { "tmpsc_thr" };
    const ASYNC: bool = A;

    fn make_objs(cfg: &MCfg, n: usize) -> MObjs {
        // harness hygiene: the wrapper's trigger table is a std thread-local that survives executions
        shuttle_tokio_impl_inner::time::clear_triggers();
        let mut tx: Vec<Option<Tx>> = (0..n).map(|_| None).collect();
        let rx;
        match cfg.cap {
            None => {
                let (s, r) = mpsc::unbounded_channel::<u8>();
                for t in &cfg.tx_threads {
                    tx[*t] = Some(Tx::U(s.clone()));
                }
                drop(s);
                rx = Rx::U(r);
            }
            Some(c) => {
                let (s, r) = mpsc::channel::<u8>(c);
                for t in &cfg.tx_threads {
                    tx[*t] = Some(Tx::B(s.clone()));
                }
                drop(s);
                rx = Rx::B(r);
            }
        }
        MObjs {
            tx: tx.into_iter().map(RefCell::new).collect(),
            rx: RefCell::new(Some(rx)),
        }
    }
    fn new_locals(_cfg: &MCfg, _t: usize) {}

    fn exec(o: &MObjs, _l: &mut (), t: usize, op: &MOp) -> MRes {
        match op {
            MOp::Send(_) | MOp::Recv | MOp::TimeoutRecv | MOp::Yield => unreachable!("async operation in a synchronous context"),
            MOp::TriggerAll => {
                shuttle_tokio_impl_inner::time::trigger_timeouts(|_| true);
                MRes::Unit
            }
            MOp::ClearTriggers => {
                shuttle_tokio_impl_inner::time::clear_triggers();
                MRes::Unit
            }
            MOp::BlockingSend(v) => {
                let h = take_tx(o, t);
                let r = match &h {
                    Tx::B(s) => s.blocking_send(*v).is_ok(),
                    Tx::U(_) => panic!("blocking_send on an unbounded channel"),
                };
                put_tx(o, t, h);
                if r {
                    MRes::Ok
                } else {
                    MRes::Closed
                }
            }
            MOp::TrySend(v) => {
                let h = take_tx(o, t);
                let r = match &h {
                    Tx::B(s) => match s.try_send(*v) {
                        Ok(()) => MRes::Ok,
                        Err(mpsc::error::TrySendError::Full(_)) => MRes::Full,
                        Err(mpsc::error::TrySendError::Closed(_)) => MRes::Closed,
                    },
                    Tx::U(_) => panic!("try_send on an unbounded channel"),
                };
                put_tx(o, t, h);
                r
            }
            MOp::USend(v) => {
                let h = take_tx(o, t);
                let r = match &h {
                    Tx::U(s) => s.send(*v).is_ok(),
                    Tx::B(_) => panic!("unbounded send on a bounded channel"),
                };
                put_tx(o, t, h);
                if r {
                    MRes::Ok
                } else {
                    MRes::Closed
                }
            }
            MOp::BlockingRecv => {
                let mut h = take_rx(o);
                let r = match &mut h {
                    Rx::B(r) => r.blocking_recv(),
                    Rx::U(r) => r.blocking_recv(),
                };
                put_rx(o, h);
                match r {
                    Some(v) => MRes::Val(v),
                    None => MRes::None,
                }
            }
            MOp::TryRecv => {
                let mut h = take_rx(o);
                let r = match &mut h {
                    Rx::B(r) => r.try_recv(),
                    Rx::U(r) => r.try_recv(),
                };
                put_rx(o, h);
                match r {
                    Ok(v) => MRes::Val(v),
                    Err(mpsc::error::TryRecvError::Empty) => MRes::Empty,
                    Err(mpsc::error::TryRecvError::Disconnected) => MRes::Disconnected,
                }
            }
            MOp::Close => {
                let mut h = take_rx(o);
                match &mut h {
                    Rx::B(r) => r.close(),
                    Rx::U(r) => r.close(),
                }
                put_rx(o, h);
                MRes::Unit
            }
            MOp::Capacity => {
                let h = take_tx(o, t);
                let r = match &h {
                    Tx::B(s) => s.capacity(),
                    Tx::U(_) => panic!("capacity on an unbounded channel"),
                };
                put_tx(o, t, h);
                MRes::Num(r)
            }
            MOp::DropTx => {
                let h = take_tx(o, t);
                drop(h);
                MRes::Unit
            }
            MOp::DropRx => {
                let h = take_rx(o);
                drop(h);
                MRes::Unit
            }
        }
    }

    fn exec_async<'a>(o: &'a MObjs, l: &'a mut (), t: usize, op: &'a MOp) -> Pin<Box<dyn Future<Output = MRes> + 'a>> {
        Box::pin(async move {
            match op {
                MOp::Send(v) => {
                    // the handle stays in its cell: a task cancelled while it waits here must not drop
                    // it (that would be a hidden DropTx)
                    let g = o.tx[t].borrow();
                    let r = match g.as_ref().expect("sender op without handle") {
                        Tx::B(s) => s.send(*v).await.is_ok(),
                        Tx::U(_) => panic!("async send on an unbounded channel"),
                    };
                    drop(g);
                    if r {
                        MRes::Ok
                    } else {
                        MRes::Closed
                    }
                }
                MOp::Recv => {
                    let mut g = o.rx.borrow_mut();
                    let r = match g.as_mut().expect("receiver op without receiver") {
                        Rx::B(r) => r.recv().await,
                        Rx::U(r) => r.recv().await,
                    };
                    drop(g);
                    match r {
                        Some(v) => MRes::Val(v),
                        None => MRes::None,
                    }
                }
                MOp::TimeoutRecv => {
                    let mut g = o.rx.borrow_mut();
                    let d = std::time::Duration::from_secs(1);
                    let r = match g.as_mut().expect("receiver op without receiver") {
                        Rx::B(r) => shuttle_tokio_impl_inner::time::timeout(d, r.recv()).await,
                        Rx::U(r) => shuttle_tokio_impl_inner::time::timeout(d, r.recv()).await,
                    };
                    drop(g);
                    match r {
                        Ok(Some(v)) => MRes::Val(v),
                        Ok(None) => MRes::None,
                        Err(_) => MRes::Elapsed,
                    }
                }
                MOp::Yield => {
                    shuttle_tokio_impl_inner::task::yield_now().await;
                    MRes::Unit
                }
                _ => Self::exec(o, l, t, op),
            }
        })
    }
    fn yields(op: &MOp) -> Option<bool> {
        Some(matches!(op, MOp::Yield))
    }

    fn m_abortable(op: &MOp, phase: u8) -> bool {
        match op {
            // only while waiting (or not yet started): nothing has been put into the channel
            MOp::Send(_) | MOp::Recv | MOp::TimeoutRecv => phase <= 1,
            MOp::Yield => true,
            _ => false,
        }
    }

    fn objects_of(_op: &MOp) -> Vec<u32> {
        vec![0xC00]
    }
    /// A cancelled sender leaves the queue; a slot it had been handed goes to the next in line.
    /// (tokio: "if `send` is cancelled … the message was not sent"; "you lose your place".)
    fn m_on_finish(m: &mut MM, t: usize) {
        let tt = t as u8;
        m.sendq.retain(|x| *x != tt);
        if let Some(pos) = m.granted.iter().position(|x| *x == tt) {
            m.granted.remove(pos);
            m.give_back();
        }
        // a cancelled receiving task takes its timeout with it
        if m.live == Some(tt) {
            m.live = None;
            m.expired = false;
        }
    }

    fn m_init(cfg: &MCfg, n: usize) -> MM {
        let mut tx_alive = vec![false; n];
        for t in &cfg.tx_threads {
            tx_alive[*t] = true;
        }
        MM {
            cap: cfg.cap.map(|c| c as u8),
            buf: vec![],
            used: 0,
            sendq: vec![],
            granted: vec![],
            tx_alive,
            no_senders: false,
            rx_closed: false,
            rx_val: None,
            vis: 0,
            triggered: false,
            live: None,
            expired: false,
        }
    }

    fn m_step(m: &MM, t: usize, op: &MOp, phase: u8, strict: bool) -> Vec<MStep<MM, MRes>> {
        let mut n = m.clone();
        let tt = t as u8;
        match op {
            MOp::Send(v) | MOp::BlockingSend(v) | MOp::TrySend(v) | MOp::USend(v) => {
                let is_try = matches!(op, MOp::TrySend(_));
                match phase {
                    0 => {
                        if n.chan_closed() {
                            return vec![MStep::Done(n, MRes::Closed)];
                        }
                        if n.room() {
                            if n.cap.is_some() {
                                n.used += 1;
                            }
                            n.buf.push((*v, false));
                            vec![MStep::Cont(n, 2)]
                        } else if is_try {
                            vec![MStep::Done(n, MRes::Full)]
                        } else {
                            n.sendq.push(tt);
                            vec![MStep::Cont(n, 1)]
                        }
                    }
                    1 => {
                        if let Some(pos) = n.granted.iter().position(|x| *x == tt) {
                            n.granted.remove(pos);
                            if n.rx_closed {
                                // the slot is of no use any more
                                return vec![MStep::Done(n, MRes::Closed)];
                            }
                            n.buf.push((*v, false));
                            vec![MStep::Cont(n, 2)]
                        } else if !n.sendq.contains(&tt) {
                            // thrown out of the queue by close() / drop of the receiver
                            vec![MStep::Done(n, MRes::Closed)]
                        } else {
                            vec![]
                        }
                    }
                    2 => {
                        // the value becomes visible now, or when the send returns
                        let mut a = n.clone();
                        a.commit(*v);
                        let mut b = a.clone();
                        b.vis += 1;
                        vec![MStep::Cont(a, 3), MStep::Done(b, MRes::Ok)]
                    }
                    _ => {
                        n.commit(*v);
                        n.vis += 1;
                        vec![MStep::Done(n, MRes::Ok)]
                    }
                }
            }
            MOp::Recv | MOp::BlockingRecv => match phase {
                0 => {
                    if n.chan_closed() && n.buf.is_empty() {
                        return vec![MStep::Done(n, MRes::None)];
                    }
                    let mut out = Vec::new();
                    if !n.poppable(true) {
                        // nothing the receiver is guaranteed to see yet: it starts to wait
                        out.push(MStep::Cont(n.clone(), 1));
                    }
                    if n.poppable(strict) {
                        n.pop();
                        out.push(MStep::Cont(n, 2));
                    }
                    out
                }
                1 => {
                    if n.poppable(strict) {
                        n.pop();
                        vec![MStep::Cont(n, 2)]
                    } else if n.chan_closed() && n.buf.is_empty() {
                        vec![MStep::Done(n, MRes::None)]
                    } else {
                        vec![]
                    }
                }
                _ => {
                    if !(wk(W_BLOCKING_RECV_LEAK) && matches!(op, MOp::BlockingRecv)) {
                        n.give_back();
                    }
                    let v = n.rx_val.take().expect("value taken");
                    vec![MStep::Done(n, MRes::Val(v))]
                }
            },
            // `Timeout::poll` looks at the expiry first, then polls `recv()`; an expired timeout drops
            // the pending `recv()` (tokio: cancel safe, no message is lost).  With the expiry and a
            // message both there the wrapper says Elapsed, tokio's own `timeout` polls first and
            // would deliver — the contract-only relation accepts either.
            MOp::TimeoutRecv => {
                if phase == 0 {
                    if n.triggered {
                        // born expired: `recv()` is never polled
                        return vec![MStep::Done(n, MRes::Elapsed)];
                    }
                    n.live = Some(tt);
                    n.expired = false;
                }
                let mut out = Vec::new();
                if phase <= 1 && n.expired {
                    let mut e = n.clone();
                    e.live = None;
                    e.expired = false;
                    out.push(MStep::Done(e, MRes::Elapsed));
                    if strict {
                        return out;
                    }
                }
                for st in Self::m_step(&n, t, &MOp::Recv, phase, strict) {
                    out.push(match st {
                        MStep::Done(mut x, r) => {
                            x.live = None;
                            x.expired = false;
                            MStep::Done(x, r)
                        }
                        other => other,
                    });
                }
                out
            }
            MOp::TriggerAll => {
                n.triggered = true;
                if n.live.is_some() {
                    n.expired = true;
                }
                vec![MStep::Done(n, MRes::Unit)]
            }
            MOp::ClearTriggers => {
                n.triggered = false;
                vec![MStep::Done(n, MRes::Unit)]
            }
            MOp::Yield => vec![MStep::Done(n, MRes::Unit)],
            MOp::TryRecv => match phase {
                0 => {
                    let mut out = Vec::new();
                    if n.poppable(false) {
                        let mut a = n.clone();
                        a.pop();
                        out.push(MStep::Cont(a, 2));
                        if wk(W_PUBLISH_LAG) && n.vis == 0 {
                            out.push(MStep::Done(n, MRes::Empty));
                        }
                    } else if n.no_senders && n.buf.is_empty() {
                        out.push(MStep::Done(n, MRes::Disconnected));
                    } else {
                        out.push(MStep::Done(n, MRes::Empty));
                    }
                    out
                }
                _ => {
                    n.give_back();
                    let v = n.rx_val.take().expect("value taken");
                    vec![MStep::Done(n, MRes::Val(v))]
                }
            },
            MOp::Close => {
                n.rx_closed = true;
                n.sendq.clear();
                vec![MStep::Done(n, MRes::Unit)]
            }
            MOp::Capacity => {
                let c = n.cap.expect("bounded") as usize;
                if n.rx_closed {
                    // of no significance once the channel is closed
                    (0..=c).map(|k| MStep::Done(n.clone(), MRes::Num(k))).collect()
                } else {
                    let k = c - n.used as usize;
                    vec![MStep::Done(n, MRes::Num(k))]
                }
            }
            MOp::DropTx => match phase {
                0 => {
                    n.tx_alive[t] = false;
                    if n.tx_alive.iter().any(|a| *a) {
                        vec![MStep::Done(n, MRes::Unit)]
                    } else {
                        // the disconnection takes effect somewhere between the call and the return
                        let mut a = n.clone();
                        a.no_senders = true;
                        vec![MStep::Cont(a, 1), MStep::Cont(n, 1)]
                    }
                }
                _ => {
                    n.no_senders = true;
                    vec![MStep::Done(n, MRes::Unit)]
                }
            },
            MOp::DropRx => {
                n.rx_closed = true;
                n.sendq.clear();
                n.buf.clear();
                n.vis = 0;
                vec![MStep::Done(n, MRes::Unit)]
            }
        }
    }
}

impl<const A: bool> XFamily for MpscFam<A> {
    fn weakenings(_cfg: &MCfg) -> Vec<(&'static str, u32)> {
        vec![
            ("try_recv-empty-while-a-returned-send-is-queued-behind-a-send-in-progress", W_PUBLISH_LAG),
            ("blocking_recv-never-gives-the-capacity-slot-back", W_BLOCKING_RECV_LEAK),
        ]
    }
}

// ---------------------------------------------------------------------------------------------
// Program generation
// ---------------------------------------------------------------------------------------------

fn seqs(alpha: &[MOp], k: usize, tail: &MOp) -> Vec<Vec<MOp>> {
    let mut out = Vec::new();
    let mut cur: Vec<Vec<MOp>> = vec![vec![]];
    for _ in 0..k {
        let mut next = Vec::new();
        for s in &cur {
            for a in alpha {
                let mut s2 = s.clone();
                s2.push(a.clone());
                next.push(s2);
            }
        }
        for s in &next {
            out.push(s.clone());
            if s.len() < k {
                let mut d = s.clone();
                d.push(tail.clone());
                out.push(d);
            }
        }
        cur = next;
    }
    out.push(vec![tail.clone()]);
    out
}

fn assign_values(t: usize, s: &[MOp]) -> Vec<MOp> {
    let mut k = 0u8;
    s.iter()
        .map(|o| {
            let mut nv = || {
                k += 1;
                10 * t as u8 + k
            };
            match o {
                MOp::Send(_) => MOp::Send(nv()),
                MOp::BlockingSend(_) => MOp::BlockingSend(nv()),
                MOp::TrySend(_) => MOp::TrySend(nv()),
                MOp::USend(_) => MOp::USend(nv()),
                o => o.clone(),
            }
        })
        .collect()
}

#[derive(Clone, Copy, PartialEq)]
enum Style {
    Async,
    Blocking,
}

fn sender_alpha(cap: Option<usize>, st: Style, rich: bool) -> Vec<MOp> {
    match (cap, st) {
        (None, _) => vec![MOp::USend(0)],
        (Some(_), Style::Async) => {
            let mut v = vec![MOp::Send(0), MOp::TrySend(0)];
            if rich {
                v.push(MOp::Capacity);
            }
            v
        }
        (Some(_), Style::Blocking) => vec![MOp::BlockingSend(0), MOp::TrySend(0)],
    }
}

fn receiver_alpha(st: Style, rich: bool) -> Vec<MOp> {
    let mut v = match st {
        Style::Async => vec![MOp::Recv, MOp::TryRecv],
        Style::Blocking => vec![MOp::BlockingRecv, MOp::TryRecv],
    };
    if rich {
        v.push(MOp::Close);
    }
    v
}

struct Shape {
    cap: Option<usize>,
    /// receiver is main (always async style) or child 1
    main_receives: bool,
    rx_style: Style,
    tx_style: Style,
    /// number of sender threads besides (possibly) main
    senders: usize,
    ks: usize,
    kr: usize,
    max_size: usize,
    rich: bool,
}

fn gen_shape<const A: bool>(sh: &Shape, out: &mut Vec<Program<MpscFam<A>>>) {
    let ss = seqs(&sender_alpha(sh.cap, sh.tx_style, sh.rich), sh.ks, &MOp::DropTx);
    let rs = seqs(&receiver_alpha(sh.rx_style, sh.rich), sh.kr, &MOp::DropRx);
    if sh.main_receives {
        for idx in nondecreasing_tuples(ss.len(), sh.senders) {
            for r in &rs {
                let ch: Vec<Vec<MOp>> = idx.iter().enumerate().map(|(i, &j)| assign_values(i + 1, &ss[j])).collect();
                let size = r.len() + ch.iter().map(|c| c.len()).sum::<usize>();
                if size > sh.max_size {
                    continue;
                }
                let cfg = MCfg {
                    cap: sh.cap,
                    tx_threads: (1..=sh.senders).collect(),
                };
                out.push(Program::fork_join(cfg, r.clone(), ch));
            }
        }
    } else {
        // child 1 receives; main sends (async style) together with `senders - 1` further children
        let ms_all = seqs(&sender_alpha(sh.cap, Style::Async, sh.rich), sh.ks, &MOp::DropTx);
        for ms in &ms_all {
            for idx in nondecreasing_tuples(ss.len(), sh.senders.saturating_sub(1)) {
                for r in &rs {
                    let mut ch: Vec<Vec<MOp>> = vec![r.clone()];
                    for (i, &j) in idx.iter().enumerate() {
                        ch.push(assign_values(i + 2, &ss[j]));
                    }
                    let size = ms.len() + ch.iter().map(|c| c.len()).sum::<usize>();
                    if size > sh.max_size {
                        continue;
                    }
                    let mut tx_threads = vec![0];
                    tx_threads.extend(2..2 + idx.len());
                    let cfg = MCfg { cap: sh.cap, tx_threads };
                    out.push(Program::fork_join(cfg, assign_values(0, ms), ch));
                }
            }
        }
    }
}

pub fn program_set<const A: bool>(set: &str) -> Vec<Program<MpscFam<A>>> {
    let thorough = set == "thorough";
    let mut out = Vec::new();
    if A {
        for cap in [Some(1), Some(2), None] {
            let rich = cap == Some(1);
            if thorough {
                gen_shape(&Shape { cap, main_receives: true, rx_style: Style::Async, tx_style: Style::Async, senders: 1, ks: 3, kr: 3, max_size: 6, rich: true }, &mut out);
                gen_shape(&Shape { cap, main_receives: true, rx_style: Style::Async, tx_style: Style::Async, senders: 2, ks: 2, kr: 3, max_size: 5, rich: false }, &mut out);
                gen_shape(&Shape { cap, main_receives: false, rx_style: Style::Async, tx_style: Style::Async, senders: 1, ks: 3, kr: 3, max_size: 6, rich: true }, &mut out);
                let mb = if cap == Some(1) { 5 } else { 4 };
                gen_shape(&Shape { cap, main_receives: false, rx_style: Style::Blocking, tx_style: Style::Blocking, senders: 2, ks: 2, kr: 2, max_size: mb, rich: false }, &mut out);
                gen_shape(&Shape { cap, main_receives: false, rx_style: Style::Blocking, tx_style: Style::Async, senders: 1, ks: 3, kr: 3, max_size: 6, rich }, &mut out);
                gen_shape(&Shape { cap, main_receives: true, rx_style: Style::Async, tx_style: Style::Blocking, senders: 2, ks: 2, kr: 2, max_size: mb, rich: false }, &mut out);
            } else {
                // three-thread programs: 3 operations, 4 only for capacity 1 with main receiving
                let m3 = if cap == Some(2) { 3 } else { 4 };
                gen_shape(&Shape { cap, main_receives: true, rx_style: Style::Async, tx_style: Style::Async, senders: 1, ks: 2, kr: 2, max_size: 4, rich }, &mut out);
                gen_shape(&Shape { cap, main_receives: true, rx_style: Style::Async, tx_style: Style::Async, senders: 2, ks: 1, kr: 2, max_size: m3, rich: false }, &mut out);
                gen_shape(&Shape { cap, main_receives: false, rx_style: Style::Async, tx_style: Style::Async, senders: 1, ks: 2, kr: 2, max_size: 4, rich: false }, &mut out);
                gen_shape(&Shape { cap, main_receives: false, rx_style: Style::Blocking, tx_style: Style::Blocking, senders: 2, ks: 2, kr: 2, max_size: 3, rich: false }, &mut out);
                gen_shape(&Shape { cap, main_receives: true, rx_style: Style::Async, tx_style: Style::Blocking, senders: 2, ks: 1, kr: 2, max_size: 3, rich: false }, &mut out);
            }
        }
        // cancellation: a task waiting in `recv` / `send` is aborted
        let g = |ops: &[MOp]| -> Vec<GOp<MOp>> { ops.iter().cloned().map(GOp::Op).collect() };
        for cap in [Some(1), None] {
            let snd = |v: u8| if cap.is_some() { MOp::Send(v) } else { MOp::USend(v) };
            // the receiver task is aborted; main takes over the receiver afterwards
            for other in [vec![snd(21)], vec![snd(21), snd(22)], vec![MOp::DropTx], vec![]] {
                for after in [vec![MOp::TryRecv], vec![MOp::Recv], vec![MOp::TryRecv, MOp::TryRecv]] {
                    if !thorough && other.len() + after.len() > 2 {
                        continue;
                    }
                    let mut main = vec![GOp::Spawn(1), GOp::Spawn(2), GOp::Abort(1), GOp::Join(1), GOp::Join(2)];
                    main.extend(g(&after));
                    out.push(Program {
                        cfg: MCfg { cap, tx_threads: vec![2] },
                        threads: vec![main, g(&[MOp::Recv]), g(&other)],
                    });
                }
            }
        }
        // two senders waiting for a slot at the same time: first come, first served
        for (s1, s2) in [(MOp::Send(11), MOp::Send(21)), (MOp::BlockingSend(11), MOp::Send(21)), (MOp::BlockingSend(11), MOp::BlockingSend(21))] {
            for recvs in [vec![MOp::Recv, MOp::Recv], vec![MOp::Recv, MOp::TryRecv, MOp::Recv]] {
                if !thorough && (recvs.len() > 2 || matches!(s2, MOp::BlockingSend(_))) {
                    continue;
                }
                let mut main = vec![GOp::Op(MOp::TrySend(1)), GOp::Spawn(1), GOp::Spawn(2)];
                main.extend(g(&recvs));
                main.extend([GOp::Join(1), GOp::Join(2)]);
                out.push(Program {
                    cfg: MCfg { cap: Some(1), tx_threads: vec![0, 1, 2] },
                    threads: vec![main, g(&[s1.clone()]), g(&[s2.clone()])],
                });
            }
        }
        // a sender waiting for a slot is aborted: the one behind it is served, nothing of it arrives
        for victim in [vec![MOp::Send(11)], vec![MOp::Send(11), MOp::Send(12)]] {
            for other in [vec![MOp::Send(21)], vec![MOp::TrySend(21)], vec![]] {
                for recvs in [vec![MOp::Recv], vec![MOp::Recv, MOp::Recv], vec![MOp::Recv, MOp::TryRecv]] {
                    if !thorough && victim.len() + other.len() + recvs.len() > 4 {
                        continue;
                    }
                    let mut main = vec![GOp::Op(MOp::TrySend(1)), GOp::Spawn(1), GOp::Spawn(2), GOp::Abort(1), GOp::Join(1)];
                    main.extend(g(&recvs));
                    main.push(GOp::Join(2));
                    out.push(Program {
                        cfg: MCfg { cap: Some(1), tx_threads: vec![0, 1, 2] },
                        threads: vec![main.clone(), g(&victim), g(&other)],
                    });
                    // the same with the receiving done by a third task while main aborts
                    let main2 = vec![GOp::Op(MOp::TrySend(1)), GOp::Spawn(1), GOp::Spawn(2), GOp::Abort(1), GOp::Join(1), GOp::Join(2)];
                    if other.is_empty() {
                        out.push(Program {
                            cfg: MCfg { cap: Some(1), tx_threads: vec![0, 1] },
                            threads: vec![main2, g(&victim), g(&recvs)],
                        });
                    }
                }
            }
        }
        // cancellation by `time::timeout` + `trigger_timeouts`: a timed-out `recv()` loses no message
        // (main looks with try_recv afterwards) and gives back no slot it did not take.  No execution
        // of these programs may fail (see fam_task.rs on the timeout table).
        for cap in [Some(1), None] {
            let snd = |v: u8| if cap.is_some() { MOp::Send(v) } else { MOp::USend(v) };
            for rxs in [vec![MOp::TimeoutRecv], vec![MOp::TimeoutRecv, MOp::TimeoutRecv], vec![MOp::TimeoutRecv, MOp::TryRecv]] {
                for mid in [vec![snd(11)], vec![snd(11), snd(12)], vec![MOp::DropTx]] {
                    if !thorough && rxs.len() + mid.len() > 3 {
                        continue;
                    }
                    // main sends (spawning has no scheduling point: yield so that the child can wait)
                    let mut m = vec![GOp::Spawn(1), GOp::Op(MOp::Yield)];
                    m.extend(g(&mid));
                    m.extend(g(&[MOp::Yield, MOp::TriggerAll]));
                    m.push(GOp::Join(1));
                    m.extend(g(&[MOp::ClearTriggers, MOp::TryRecv, MOp::TryRecv]));
                    out.push(Program { cfg: MCfg { cap, tx_threads: vec![0] }, threads: vec![m, g(&rxs)] });
                    // the sender is a task of its own
                    if mid.len() == 1 || thorough {
                        let mut m2 = vec![GOp::Spawn(1), GOp::Spawn(2)];
                        m2.extend(g(&[MOp::Yield, MOp::TriggerAll]));
                        m2.extend([GOp::Join(1), GOp::Join(2)]);
                        m2.extend(g(&[MOp::ClearTriggers, MOp::TryRecv]));
                        out.push(Program { cfg: MCfg { cap, tx_threads: vec![2] }, threads: vec![m2, g(&rxs), g(&mid)] });
                    }
                }
            }
        }
    } else {
        // plain threads: blocking and try operations only
        for cap in [Some(1), Some(2), None] {
            let (ks, kr, mx) = if thorough { (3, 3, 6) } else { (2, 2, 4) };
            for main_receives in [true, false] {
                let ss = seqs(&sender_alpha(cap, Style::Blocking, false), ks, &MOp::DropTx);
                let rs = seqs(&receiver_alpha(Style::Blocking, cap == Some(1)), kr, &MOp::DropRx);
                for s in &ss {
                    for r in &rs {
                        if s.len() + r.len() > mx {
                            continue;
                        }
                        if main_receives {
                            out.push(Program::fork_join(MCfg { cap, tx_threads: vec![1] }, r.clone(), vec![assign_values(1, s)]));
                        } else {
                            out.push(Program::fork_join(MCfg { cap, tx_threads: vec![0] }, assign_values(0, s), vec![r.clone()]));
                        }
                    }
                }
            }
            if thorough {
                let ss = seqs(&sender_alpha(cap, Style::Blocking, false), 2, &MOp::DropTx);
                let rs = seqs(&receiver_alpha(Style::Blocking, false), 2, &MOp::DropRx);
                for idx in nondecreasing_tuples(ss.len(), 2) {
                    for r in &rs {
                        let ch: Vec<Vec<MOp>> = idx.iter().enumerate().map(|(i, &j)| assign_values(i + 1, &ss[j])).collect();
                        if r.len() + ch[0].len() + ch[1].len() > 5 {
                            continue;
                        }
                        out.push(Program::fork_join(MCfg { cap, tx_threads: vec![1, 2] }, r.clone(), ch));
                    }
                }
            }
        }
    }
    out.sort_by_key(|p| p.size());
    out
}
