//! Per-program driver of the C19 families.
//!
//! This is the generic path of `vx::drive::check_program` (explicit-state model, exhaustive
//! exploration of the implementation, NFA co-simulation of every execution) with three additions the
//! tokio families need and the shared driver does not expose:
//!
//! * a per-program **data menu** for `Scheduler::next_u64` (tokio's `Notify::notify_one` picks the
//!   waiter to wake with `shuttle::rand`), together with a scheduler shim that answers *re-draws*
//!   (rejection sampling inside `gen_range`) with 0 so that the choice tree stays finite;
//! * **several independent weakenings** per family (one bit per recorded finding): an execution the
//!   reference model rejects is re-judged under each single weakening, then under their union, and is
//!   attributed to exactly the findings needed to explain it;
//! * a family-supplied **body** (the task family runs the generic task operations through
//!   shuttle-tokio's own `spawn` / `JoinHandle`).

use serde_json::json;
use shuttle_engine::scheduler::{Schedule, Scheduler, Task, TaskId};
use shuttle_engine::Runner;
use std::cell::{Cell, RefCell};
use std::collections::BTreeSet;
use std::panic::{catch_unwind, AssertUnwindSafe};
use std::rc::Rc;
use std::sync::Arc;
use vx::drive::{alts_to_strings, op_kinds, FamilyDyn, Mode, ProgReport, VKind, Violation};
use vx::explore::{Alt, Explorer, FixedScheduler, Options};
use vx::prog::*;

thread_local! {
    static WEAK_MASK: Cell<u32> = const { Cell::new(0) };
}

/// Is the recorded defect with this bit part of the model being evaluated?
pub fn wk(bit: u32) -> bool {
    WEAK_MASK.with(|w| w.get() & bit != 0)
}

pub fn with_mask<T>(mask: u32, f: impl FnOnce() -> T) -> T {
    let old = WEAK_MASK.with(|w| w.replace(mask));
    let r = with_weak(mask != 0, f);
    WEAK_MASK.with(|w| w.set(old));
    r
}

pub type Body = Box<dyn Fn() + Send + Sync + 'static>;

/// What the C19 families add to `vx::prog::Family`.
pub trait XFamily: Family {
    /// Values offered at every first draw of a burst of `next_u64` calls.
    fn rand_menu(_p: &Program<Self>) -> Vec<u64> {
        vec![0]
    }
    /// Recorded findings this family's model can be weakened by: (name, bit).
    fn weakenings(_cfg: &Self::Cfg) -> Vec<(&'static str, u32)> {
        Vec::new()
    }
    /// The Shuttle test body that interprets `prog`.
    fn body(prog: &Arc<SS<Program<Self>>>, logs: &Logs<Self::Res>, auxs: &AuxLogs) -> Body {
        Box::new(make_body::<Self>(prog, logs, auxs))
    }
}

/// Scheduler shim: the first `next_u64` after a task decision goes to the wrapped scheduler (the
/// explorer branches over the menu); further draws before the next task decision are re-draws of a
/// rejection-sampling loop and are answered with 0 (always accepted), invisibly to the explorer.
pub struct Burst<S: Scheduler> {
    pub inner: S,
    pub in_burst: bool,
    /// replay only: what the runtime offered at every task decision
    pub trace: Option<Rc<RefCell<Vec<String>>>>,
}

impl<S: Scheduler> Scheduler for Burst<S> {
    fn new_execution(&mut self) -> Option<Schedule> {
        self.in_burst = false;
        self.inner.new_execution()
    }
    fn next_task(&mut self, runnable: &[&Task], current: Option<TaskId>, is_yielding: bool) -> Option<TaskId> {
        self.in_burst = false;
        let r = self.inner.next_task(runnable, current, is_yielding);
        if let Some(t) = &self.trace {
            t.borrow_mut().push(format!(
                "offered {:?} current {:?} yielding {} -> {:?}",
                runnable.iter().map(|x| usize::from(x.id())).collect::<Vec<_>>(),
                current.map(usize::from),
                is_yielding,
                r.map(usize::from)
            ));
        }
        r
    }
    fn next_u64(&mut self) -> u64 {
        if self.in_burst {
            0
        } else {
            self.in_burst = true;
            self.inner.next_u64()
        }
    }
}

fn classify(r: std::thread::Result<()>) -> RawEnding {
    match r {
        Ok(()) => RawEnding::Ok,
        Err(p) => {
            let msg = payload_to_string(&p);
            match parse_deadlock(&msg) {
                Some(tasks) => RawEnding::Deadlock { tasks, msg },
                None => RawEnding::Panic(msg),
            }
        }
    }
}

/// `vx::prog::explore_program` with the family's body and the burst shim.
pub fn explore_program_x<F: XFamily>(
    prog: &Arc<SS<Program<F>>>,
    opts: Options,
    max_execs: u64,
    mut visit: impl FnMut(&ExecRecord<F::Res>, &Explorer),
) -> Result<TreeStats, String> {
    let ex = Explorer::new(opts);
    ex.set_executions_per_run(128);
    let config = base_config();
    let mut capped = false;
    let logs: Logs<F::Res> = Rc::new(RefCell::new(Vec::new()));
    let auxs: AuxLogs = Rc::new(RefCell::new(Vec::new()));
    loop {
        AUX.with(|a| a.borrow_mut().clear());
        let body = F::body(prog, &logs, &auxs);
        let sched = Burst {
            inner: ex.handle(),
            in_burst: false,
            trace: None,
        };
        let r = catch_unwind(AssertUnwindSafe(|| {
            Runner::new(sched, config.clone()).run(body);
        }));
        let last_ending = classify(r);
        ex.advance();
        if let Some(d) = ex.diverged() {
            return Err(format!("{} — program {}", d, prog.0.describe()));
        }
        let fin = ex.drain_finished();
        let ls: Vec<Vec<Entry<F::Res>>> = std::mem::take(&mut *logs.borrow_mut());
        let last_aux = AUX.with(|a| std::mem::take(&mut *a.borrow_mut()));
        let mut axs: Vec<Vec<AuxEntry>> = std::mem::take(&mut *auxs.borrow_mut());
        axs.push(last_aux);
        let mut ls_it = ls.into_iter();
        let mut ax_it = axs.into_iter();
        let mut ls2: Vec<Vec<Entry<F::Res>>> = Vec::new();
        let mut ax2: Vec<Vec<AuxEntry>> = Vec::new();
        for (path, _) in fin.iter() {
            let stopped_at_once = path.len() == 1 && matches!(path[0].chosen(), Alt::Stop);
            if stopped_at_once {
                ls2.push(Vec::new());
                ax2.push(Vec::new());
            } else {
                match (ls_it.next(), ax_it.next()) {
                    (Some(l), Some(a)) => {
                        ls2.push(l);
                        ax2.push(a);
                    }
                    (Some(l), None) => {
                        ls2.push(l);
                        ax2.push(Vec::new());
                    }
                    _ => {
                        return Err(format!("explorer finished {} executions but fewer bodies ran — program {}", fin.len(), prog.0.describe()));
                    }
                }
            }
        }
        if ls_it.next().is_some() {
            return Err(format!("more bodies ran than executions finished — program {}", prog.0.describe()));
        }
        let nfin = fin.len();
        for (i, (((path, stopped), log), aux)) in fin.into_iter().zip(ls2.into_iter()).zip(ax2.into_iter()).enumerate() {
            let raw = if i + 1 == nfin && last_ending != RawEnding::Ok {
                last_ending.clone()
            } else if stopped {
                RawEnding::Stopped
            } else {
                RawEnding::Ok
            };
            let rec = ExecRecord {
                aux,
                log,
                path,
                raw_ending: raw,
            };
            visit(&rec, &ex);
        }
        if ex.exhausted() {
            break;
        }
        if ex.stats().executions >= max_execs {
            capped = true;
            break;
        }
    }
    let s = ex.stats();
    Ok(TreeStats {
        executions: s.executions,
        decisions: s.decisions,
        max_depth: s.max_depth,
        depth_cap_hits: s.depth_cap_hits,
        exec_cap_hit: capped,
        // (fields added to the shared struct later, e.g. the C08 `after_stop` breach record, are
        // not judged by this check)
        ..Default::default()
    })
}

fn normalise<R: Ord + Clone>(o: &Outcome<R>, model_panics: &[String]) -> Outcome<R> {
    match &o.ending {
        Ending::Panic(msg) => {
            let cls = model_panics.iter().find(|c| msg.contains(c.as_str())).cloned().unwrap_or_else(|| msg.clone());
            Outcome {
                res: vec![],
                ending: Ending::Panic(cls),
            }
        }
        _ => o.clone(),
    }
}

/// The masks under which a rejected execution is re-judged, cheapest explanation first: every
/// single weakening, every pair, then all of them.
fn mask_order(ws: &[(&'static str, u32)]) -> Vec<u32> {
    let mut out: Vec<u32> = ws.iter().map(|w| w.1).collect();
    for i in 0..ws.len() {
        for j in i + 1..ws.len() {
            out.push(ws[i].1 | ws[j].1);
        }
    }
    if ws.len() > 2 {
        out.push(ws.iter().fold(0, |a, w| a | w.1));
    }
    out
}

pub fn check_program_x<F: XFamily>(idx: usize, prog: &Program<F>, mode: &Mode) -> ProgReport {
    let mut rep = ProgReport {
        idx,
        ..Default::default()
    };
    let kinds = op_kinds(prog);
    let desc = prog.describe();

    // explicit-state exploration of the reference model
    let (m_strict, ms) = model_outcomes(prog, true, mode.max_model_states);
    rep.model_states = ms.states;
    rep.model_transitions = ms.transitions;
    rep.model_outcomes = m_strict.len();
    if ms.capped {
        rep.capped = true;
    }
    let model_panics: Vec<String> = m_strict
        .iter()
        .filter_map(|o| match &o.ending {
            Ending::Panic(c) => Some(c.clone()),
            _ => None,
        })
        .collect();

    let arc = Arc::new(SS(prog.clone()));
    let opts = Options {
        preemption_bound: mode.preemption_bound,
        stop_children: mode.stop_children,
        rand_menu: F::rand_menu(prog),
        ..Options::default()
    };
    let mut impl_outcomes: BTreeSet<Outcome<F::Res>> = BTreeSet::new();
    let mut mc: MCache<F> = MCache::new(prog, false);
    let ws = F::weakenings(&prog.cfg);
    let masks = mask_order(&ws);
    let mut weak_caches: Vec<Option<MCache<F>>> = masks.iter().map(|_| None).collect();
    let mut viols: Vec<Violation> = Vec::new();
    let mut validated = 0u64;
    let mut sample: Option<serde_json::Value> = None;
    let maxv = mode.max_violations_per_program;
    let mut known_hits: Vec<(u32, usize)> = Vec::new();
    let r = explore_program_x::<F>(&arc, opts, mode.max_execs, |rec, _ex| {
        let cr = cosim(prog, &mut mc, rec, mode.check_enabled);
        if cr.fail.is_none() {
            validated += 1;
        }
        if sample.is_none() || (rec.path.len() > 6 && validated % 97 == 1) {
            sample = Some(json!({
                "program": desc,
                "schedule": alts_to_strings(&rec.path),
                "log": rec.log.iter().filter(|e| matches!(e.kind, EKind::Ret(_))).map(|e| format!("t{}#{}@{}:{:?}", e.thread, e.op, e.stamp, e.kind)).collect::<Vec<_>>(),
                "ending": format!("{:?}", cr.outcome.ending),
            }));
        }
        if cr.fail.is_none() && mode.sound && viols.len() < maxv {
            if let Some((culprit, what)) = F::monitor(prog, rec) {
                viols.push(Violation {
                    kind: VKind::Sound,
                    culprit,
                    family: F::NAME.into(),
                    program_idx: idx,
                    program: desc.clone(),
                    op_kinds: kinds.clone(),
                    what,
                    alts: alts_to_strings(&rec.path),
                    choices: rec.path.iter().map(|n| n.idx).collect(),
                });
            }
        }
        if let Some(f) = &cr.fail {
            // which recorded findings (if any) explain this execution?
            let mut explained: Option<u32> = None;
            for (i, mask) in masks.iter().enumerate() {
                let cache = weak_caches[i].get_or_insert_with(|| with_mask(*mask, || MCache::new(prog, false)));
                let cw = with_mask(*mask, || cosim(prog, cache, rec, mode.check_enabled));
                if cw.fail.is_none() {
                    explained = Some(*mask);
                    break;
                }
            }
            if let Some(mask) = explained {
                let hits = match known_hits.iter_mut().find(|h| h.0 == mask) {
                    Some(h) => {
                        h.1 += 1;
                        h.1
                    }
                    None => {
                        known_hits.push((mask, 1));
                        1
                    }
                };
                if mode.sound && hits <= 2 {
                    let names: Vec<&str> = ws.iter().filter(|w| w.1 & mask != 0).map(|w| w.0).collect();
                    viols.push(Violation {
                        kind: VKind::Known(names.join("+")),
                        culprit: names.join("+"),
                        family: F::NAME.into(),
                        program_idx: idx,
                        program: desc.clone(),
                        op_kinds: kinds.clone(),
                        what: format!("{} [ending observed: {:?}] — explained by the weakened model", f.what, rec.raw_ending),
                        alts: alts_to_strings(&rec.path),
                        choices: rec.path.iter().map(|n| n.idx).collect(),
                    });
                }
            } else if mode.sound && viols.iter().filter(|v| !matches!(v.kind, VKind::Known(_))).count() < maxv + 2 {
                let kind = match f.kind {
                    FailKind::Ending => VKind::Ending,
                    FailKind::Enabled => VKind::Enabled,
                    FailKind::Contract => VKind::Contract,
                    FailKind::Ret => VKind::Sound,
                };
                viols.push(Violation {
                    kind,
                    culprit: f.culprit.clone(),
                    family: F::NAME.into(),
                    program_idx: idx,
                    program: desc.clone(),
                    op_kinds: kinds.clone(),
                    what: format!("{} [ending observed: {:?}]", f.what, rec.raw_ending),
                    alts: alts_to_strings(&rec.path),
                    choices: rec.path.iter().map(|n| n.idx).collect(),
                });
            }
        }
        impl_outcomes.insert(normalise(&cr.outcome, &model_panics));
    });
    match r {
        Err(e) => {
            rep.machinery_error = Some(e);
        }
        Ok(ts) => {
            rep.executions = ts.executions;
            rep.decisions = ts.decisions;
            rep.max_depth = ts.max_depth;
            if ts.exec_cap_hit || ts.depth_cap_hits > 0 {
                rep.capped = true;
            }
            rep.full_tree = mode.preemption_bound.is_none() && !ts.exec_cap_hit && ts.depth_cap_hits == 0;
        }
    }
    rep.traces_validated = validated;
    rep.impl_outcomes = impl_outcomes.len();
    rep.sample = sample;
    rep.violations = viols;
    rep
}

/// Run one execution of `prog` under a fixed list of alternatives (replay).
pub fn run_fixed<F: XFamily>(prog: &Program<F>, alts: &[Alt]) -> (Vec<Entry<F::Res>>, RawEnding, Option<String>, Vec<String>) {
    let arc = Arc::new(SS(prog.clone()));
    let logs: Logs<F::Res> = Rc::new(RefCell::new(Vec::new()));
    let auxs: AuxLogs = Rc::new(RefCell::new(Vec::new()));
    AUX.with(|a| a.borrow_mut().clear());
    let body = F::body(&arc, &logs, &auxs);
    let fs = FixedScheduler::new(alts.to_vec(), 0);
    let mm = fs.mismatch.clone();
    let trace = Rc::new(RefCell::new(Vec::new()));
    let sched = Burst {
        inner: fs,
        in_burst: false,
        trace: Some(trace.clone()),
    };
    let config = base_config();
    let r = catch_unwind(AssertUnwindSafe(|| {
        Runner::new(sched, config).run(body);
    }));
    let ending = classify(r);
    let l = logs.borrow_mut().pop().unwrap_or_default();
    let m = mm.borrow().clone();
    let tr = trace.borrow().clone();
    (l, ending, m, tr)
}

pub struct XRunner<F: XFamily> {
    pub gen: fn(&str) -> Vec<Program<F>>,
    pub cache: RefCell<Option<(String, Rc<Vec<Program<F>>>)>>,
}

impl<F: XFamily> XRunner<F> {
    pub fn new(gen: fn(&str) -> Vec<Program<F>>) -> Self {
        XRunner {
            gen,
            cache: RefCell::new(None),
        }
    }
    pub fn progs(&self, set: &str) -> Rc<Vec<Program<F>>> {
        let mut c = self.cache.borrow_mut();
        if let Some((s, p)) = c.as_ref() {
            if s == set {
                return p.clone();
            }
        }
        let p = Rc::new((self.gen)(set));
        *c = Some((set.to_string(), p.clone()));
        p
    }
}

impl<F: XFamily> FamilyDyn for XRunner<F> {
    fn name(&self) -> &'static str {
        F::NAME
    }
    fn len(&self, set: &str) -> usize {
        self.progs(set).len()
    }
    fn check_idx(&self, set: &str, idx: usize, mode: &Mode) -> ProgReport {
        check_program_x(idx, &self.progs(set)[idx], mode)
    }
    fn describe(&self, set: &str, idx: usize) -> String {
        self.progs(set)[idx].describe()
    }
    fn replay(&self, set: &str, idx: usize, alts: &[Alt]) -> String {
        let p = &self.progs(set)[idx];
        let (log, ending, mm, trace) = run_fixed::<F>(p, alts);
        let mut s = format!("program: {}\nschedule: {:?}\n", p.describe(), alts);
        for (i, t) in trace.iter().enumerate() {
            s.push_str(&format!("  task decision {:>3}: {}\n", i + 1, t));
        }
        for e in &log {
            s.push_str(&format!("  step {:>3} thread {} (task {}) op {} {:?}\n", e.stamp, e.thread, e.task, e.op, e.kind));
        }
        s.push_str(&format!("ending: {:?}\n", ending));
        if let Some(m) = mm {
            s.push_str(&format!("REPLAY MISMATCH: {}\n", m));
        }
        s
    }
}
