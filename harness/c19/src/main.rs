fn main() {
    eprintln!("MACHINERY-ERROR: not built yet");
    std::process::exit(2);
}
