//! vx-c19 — property C19: tokio-compatible primitives keep tokio's documented contracts.
//!
//! `check C19 quick|thorough|--replay <file>`; hidden sub-commands `worker` (shard of a family, used
//! by the check itself), `bench` / `describe` / `survey` (per-program numbers), `history` (several
//! recorded executions one after the other in one process), `probe-timeleak` (stand-alone
//! reproduction of the timeout-table leak described in fam_task.rs).
//!
//! E2 families over `shuttle-tokio-impl-inner`, all built on `vx` (program IR, exhaustive explorer,
//! reference models, NFA co-simulation) through the per-program driver in `driver.rs`:
//!
//! | family      | primitives                                                     | file           |
//! |-------------|----------------------------------------------------------------|----------------|
//! | `tmpsc`     | mpsc bounded(1,2) / unbounded, tasks (+ cancellation)          | fam_mpsc.rs    |
//! | `tmpsc_thr` | the same from plain threads (blocking_* and try_*)             | fam_mpsc.rs    |
//! | `toneshot`  | oneshot (+ cancellation of `rx.await` / `tx.closed()`)         | fam_oneshot.rs |
//! | `twatch`    | watch incl. send_modify / send_replace / wait_for (+ cancellation of `changed` / `wait_for` / `closed`) | fam_watch.rs |
//! | `tnotify`   | Notify (with a data menu for the random waiter choice; + cancellation of waiters, incl. the one `notify_one` chose) | fam_notify.rs |
//! | `tlock`     | Mutex / RwLock / Semaphore (+ cancellation of queued requests) | fam_lock.rs    |
//! | `ttask`     | task::spawn / JoinHandle / abort / JoinSet, sleep, interval    | fam_task.rs    |
//! | `ttime`     | time::timeout with the trigger_timeouts / clear_triggers hooks | fam_task.rs    |
//!
//! Cancellation of a task suspended inside an awaiting operation comes in two forms in every one of
//! `tmpsc`, `toneshot`, `twatch`, `tnotify` (and `tlock` / `ttime` for `acquire`): `JoinHandle::abort`
//! (`GOp::Abort`; destructors that take scheduling steps of their own — a dropped `Notified` passing
//! its notification on, a dropped last watch handle waking the other side — are modelled step by step
//! through `Family::m_cancel_begin` / `m_cancel_step`) and `time::timeout(..)` expired by
//! `trigger_timeouts` (ops `Timeout*`, `TriggerAll`, `ClearTriggers`).
//!
//! `patches/` holds the small fixes proposed for the findings of this check (not applied).
mod driver;
mod fam_lock;
mod fam_mpsc;
mod fam_notify;
mod fam_oneshot;
mod fam_task;
mod fam_watch;
mod stackcache;

use driver::XRunner;
use serde_json::json;
use vx::common::{finish, CheckCtx, CheckResult, Tier};
use vx::drive::{self, FamilyDyn, Mode, VKind};

fn registry() -> Vec<Box<dyn FamilyDyn>> {
    vec![
        Box::new(XRunner::new(fam_mpsc::program_set::<true>)),
        Box::new(XRunner::new(fam_mpsc::program_set::<false>)),
        Box::new(XRunner::new(fam_oneshot::program_set)),
        Box::new(XRunner::new(fam_watch::program_set)),
        Box::new(XRunner::new(fam_notify::program_set)),
        Box::new(XRunner::new(fam_lock::program_set)),
        Box::new(XRunner::new(fam_task::program_set::<false>)),
        Box::new(XRunner::new(fam_task::program_set::<true>)),
    ]
}

/// (family, share of the wall-clock budget of the thorough tier ~ measured executions)
const FAMILIES: [(&str, f64); 8] = [("toneshot", 0.3), ("ttime", 0.3), ("tmpsc_thr", 2.5), ("tnotify", 1.5), ("ttask", 3.3), ("twatch", 8.0), ("tmpsc", 8.0), ("tlock", 10.0)];

fn family(name: &str) -> Box<dyn FamilyDyn> {
    registry().into_iter().find(|f| f.name() == name).unwrap_or_else(|| {
        eprintln!("MACHINERY-ERROR: unknown family {}", name);
        std::process::exit(2)
    })
}

fn c19(ctx: &CheckCtx) -> CheckResult {
    let mut res = CheckResult::new("model_checking");
    let set = if ctx.tier.is_thorough() { "thorough" } else { "quick" };
    let mode = Mode {
        complete: false,
        ..Mode::default()
    };
    let wanted = [VKind::Sound, VKind::Enabled, VKind::Ending, VKind::Abort];
    if ctx.tier.is_thorough() {
        // one family after the other, 16 workers each; every family gets its share of the wall-clock
        // budget (unused time rolls over to the next)
        let total = 1380.0;
        let t0 = std::time::Instant::now();
        let mut weight_left: f64 = FAMILIES.iter().map(|f| f.1).sum();
        for (f, w) in FAMILIES.iter() {
            let left = (total - t0.elapsed().as_secs_f64()).max(1.0);
            let share = left * w / weight_left;
            weight_left -= w;
            vx::checks::run_e2_with(ctx, &mut res, &[(*f, set, mode.clone())], &wanted, share, &family);
        }
    } else {
        // the quick sets are small: all families at once (start-up and tail latencies overlap), each
        // with the whole budget as its cap
        let parts: Vec<CheckResult> = std::thread::scope(|sc| {
            let hs: Vec<_> = FAMILIES
                .iter()
                .map(|(f, _)| {
                    let mode = mode.clone();
                    let wanted = wanted.clone();
                    sc.spawn(move || {
                        let mut r = CheckResult::new("model_checking");
                        vx::checks::run_e2_with(ctx, &mut r, &[(*f, set, mode)], &wanted, 38.0, &family);
                        r
                    })
                })
                .collect();
            hs.into_iter().map(|h| h.join().expect("family thread")).collect()
        });
        for p in parts {
            merge(&mut res, p);
        }
    }
    res.cov("rule", format!("{}; C19: the explorer additionally branches over a per-program data menu at every first `next_u64` of a burst (Notify's random waiter choice), re-draws of a rejection-sampling loop are answered with 0", vx::checks::e2_rule()));
    res.assumptions.push("small-scope: programs up to the stated size only".into());
    res.assumptions.push("reference models written from tokio's documentation of sync::{mpsc, oneshot, watch, Notify, Mutex, RwLock, Semaphore}, task::{spawn, JoinHandle, JoinSet} (DESIGN.md Appendix A, tokio paragraph); entry points that are `unimplemented!()` in the wrapper are excluded".into());
    res.assumptions.push("blocking_* operations are only used by plain threads and by tasks that never await (the shape of a spawn_blocking closure), as tokio requires".into());
    res
}

/// Fold the result of one family's run into the check's result.
fn merge(res: &mut CheckResult, p: CheckResult) {
    for (k, v) in p.coverage {
        match (k.as_str(), v) {
            ("families", serde_json::Value::Array(a)) => {
                let e = res.coverage.entry("families".to_string()).or_insert_with(|| json!([]));
                e.as_array_mut().unwrap().extend(a);
            }
            ("samples", serde_json::Value::Array(a)) => {
                for s in a.into_iter().take(2) {
                    res.sample(s);
                }
            }
            ("exhaustive", serde_json::Value::Bool(b)) => {
                let cur = res.coverage.get("exhaustive").and_then(|v| v.as_bool()).unwrap_or(true);
                res.cov("exhaustive", cur && b);
            }
            (k, v) => {
                if let Some(n) = v.as_u64() {
                    res.add_count(k, n);
                } else {
                    res.coverage.insert(k.to_string(), v);
                }
            }
        }
    }
    res.findings.extend(p.findings);
    res.machinery_errors.extend(p.machinery_errors);
}

fn replay_file(id: &str, path: &str) -> ! {
    let s = std::fs::read_to_string(path).unwrap_or_else(|e| {
        eprintln!("cannot read {}: {}", path, e);
        std::process::exit(2)
    });
    let doc: serde_json::Value = serde_json::from_str(&s).expect("replay json");
    let r = &doc["replay"];
    println!("property {} key {}", id, doc["key"]);
    println!("reported: {}", doc["what"]);
    match r["engine"].as_str() {
        Some("e2") => {
            let fam = family(r["family"].as_str().unwrap());
            let set = r["set"].as_str().unwrap();
            let idx = r["idx"].as_u64().unwrap() as usize;
            let alts: Vec<String> = r["alts"].as_array().unwrap().iter().map(|v| v.as_str().unwrap().to_string()).collect();
            if fam.describe(set, idx) != r["program"].as_str().unwrap() {
                println!("note: program list changed since the replay file was written; using index {}", idx);
            }
            if alts.is_empty() {
                println!("(finding concerns the whole schedule tree of the program; re-checking the program)");
                let rep = fam.check_idx(set, idx, &Mode { complete: false, ..Mode::default() });
                for v in rep.violations {
                    println!("  {:?}: {}", v.kind, v.what);
                }
            } else {
                vx::common::silence_panics();
                println!("{}", fam.replay(set, idx, &drive::strings_to_alts(&alts)));
            }
        }
        other => {
            println!("no replayer for engine {:?}", other);
            std::process::exit(2);
        }
    }
    std::process::exit(0)
}

fn run_check(id: &str, tier: Tier) -> ! {
    let ctx = CheckCtx::new(id, tier);
    let res = match id {
        "C19" => c19(&ctx),
        _ => {
            eprintln!("MACHINERY-ERROR: no check registered for {}", id);
            std::process::exit(2)
        }
    };
    finish(&ctx, res)
}

fn main() {
    let args: Vec<String> = std::env::args().collect();
    match args.get(1).map(|s| s.as_str()) {
        Some("check") => {
            let id = args.get(2).cloned().unwrap_or_default();
            match args.get(3).map(|s| s.as_str()) {
                Some("--replay") => replay_file(&id, args.get(4).expect("replay path")),
                Some("thorough") => run_check(&id, Tier::Thorough),
                Some("quick") | None => {
                    let tier = match std::env::var("VERIF_TIER").as_deref() {
                        Ok("thorough") => Tier::Thorough,
                        _ => Tier::Quick,
                    };
                    run_check(&id, tier)
                }
                Some(x) => {
                    eprintln!("unknown tier {}", x);
                    std::process::exit(2)
                }
            }
        }
        Some("bench") => {
            // bench <family> <set> <idx>
            if std::env::var("VX_LOUD").is_err() {
                let _orig = vx::common::mute_stderr();
                std::mem::forget(_orig);
                vx::common::silence_panics();
            }
            let fam = family(&args[2]);
            let i: usize = args[4].parse().unwrap();
            let t0 = std::time::Instant::now();
            let r = fam.check_idx(&args[3], i, &Mode { complete: false, ..Mode::default() });
            println!("execs {} decisions {} states {} in {:?}; violations {}", r.executions, r.decisions, r.model_states, t0.elapsed(), r.violations.len());
            for v in r.violations.iter().take(4) {
                println!("  {:?} [{}] {} :: {:?}", v.kind, v.culprit, v.what, v.alts);
            }
        }
        Some("describe") => {
            // describe <family> <set> <idx>...
            let fam = family(&args[2]);
            println!("{} programs", fam.len(&args[3]));
            for a in &args[4..] {
                let i: usize = a.parse().unwrap();
                println!("#{} {}", i, fam.describe(&args[3], i));
            }
        }
        Some("survey") => {
            // survey <family> <set> [from] [to]: run every program in-process, print per-program numbers
            if std::env::var("VX_LOUD").is_err() {
                let _orig = vx::common::mute_stderr();
                std::mem::forget(_orig);
                vx::common::silence_panics();
            }
            let fam = family(&args[2]);
            let n = fam.len(&args[3]);
            let from: usize = args.get(4).and_then(|s| s.parse().ok()).unwrap_or(0);
            let to: usize = args.get(5).and_then(|s| s.parse().ok()).unwrap_or(n).min(n);
            let mut tot = 0u64;
            let mut keys: std::collections::BTreeMap<String, (usize, usize)> = Default::default();
            let stride: usize = args.get(6).and_then(|s| s.parse().ok()).unwrap_or(1);
            for i in (from..to).step_by(stride) {
                let r = fam.check_idx(&args[3], i, &Mode { complete: false, ..Mode::default() });
                tot += r.executions;
                if let Ok(path) = std::env::var("VX_CSV") {
                    use std::io::Write;
                    let mut f = std::fs::OpenOptions::new().create(true).append(true).open(path).unwrap();
                    let _ = writeln!(f, "{}\t{}\t{}\t{}\t{}", i, r.executions, r.impl_outcomes, r.model_states, fam.describe(&args[3], i));
                }
                if r.executions > 20000 {
                    println!("#{} execs {} :: {}", i, r.executions, fam.describe(&args[3], i));
                }
                if let Some(e) = &r.machinery_error {
                    println!("#{} MACHINERY {}", i, e);
                }
                for v in &r.violations {
                    let k = format!("{:?}/{}", v.kind, v.culprit);
                    let e = keys.entry(k).or_insert((0, i));
                    e.0 += 1;
                }
            }
            println!("{} programs, {} executions", to - from, tot);
            for (k, (c, first)) in keys {
                println!("  {} x{} first #{}", k, c, first);
            }
        }
        Some("probe-timeleak") => {
            // Stand-alone reproduction (no explorer, no model): does a `time::timeout` that is still
            // pending when its execution ends leave its entry in the wrapper's thread-local table, so
            // that `trigger_timeouts` in a LATER execution on the same thread trips over it?
            //   probe-timeleak detached|deadlock
            use shuttle_tokio_impl_inner as stk;
            vx::common::silence_panics();
            let how = args.get(2).cloned().unwrap_or_else(|| "detached".into());
            let cfg = || {
                let mut c = shuttle_engine::Config::new();
                c.failure_persistence = shuttle_engine::FailurePersistence::None;
                c
            };
            let join = how == "deadlock";
            let a = std::panic::catch_unwind(move || {
                shuttle_engine::Runner::new(shuttle_schedulers::DfsScheduler::new(None, false), cfg()).run(move || {
                    shuttle::future::block_on(async move {
                        let sem = std::sync::Arc::new(stk::sync::Semaphore::new(0));
                        let s2 = sem.clone();
                        let h = stk::task::spawn(async move {
                            let _ = stk::time::timeout(std::time::Duration::from_secs(1), s2.acquire()).await;
                        });
                        if join {
                            let _ = h.await;
                        } else {
                            stk::task::yield_now().await;
                            drop(h);
                        }
                    });
                })
            });
            println!("first run ({}): {}", how, match &a {
                Ok(n) => format!("ok, {} executions", n),
                Err(p) => format!("failed: {}", vx::prog::payload_to_string(p).chars().take(90).collect::<String>()),
            });
            let b = std::panic::catch_unwind(move || {
                shuttle_engine::Runner::new(shuttle_schedulers::DfsScheduler::new(None, false), cfg()).run(|| {
                    shuttle::future::block_on(async {
                        stk::time::trigger_timeouts(|_| true);
                        stk::time::clear_triggers();
                    });
                })
            });
            println!("second run (trigger_timeouts in a fresh execution, same thread): {}", match &b {
                Ok(n) => format!("ok, {} executions", n),
                Err(p) => format!("PANIC: {}", vx::prog::payload_to_string(p).chars().take(120).collect::<String>()),
            });
        }
        Some("history") => {
            // history <family> <set> (<idx> <alts,comma,separated>)+ : run the given executions one after
            // the other in this process (state that survives executions shows up here)
            vx::common::silence_panics();
            let fam = family(&args[2]);
            let mut i = 4;
            while i + 1 < args.len() {
                let idx: usize = args[i].parse().unwrap();
                let alts: Vec<String> = args[i + 1].split(',').filter(|s| !s.is_empty()).map(|s| s.to_string()).collect();
                println!("{}", fam.replay(&args[3], idx, &drive::strings_to_alts(&alts)));
                i += 2;
            }
        }
        Some("worker") => {
            // worker <family> <set> <mode-json> <shard> <nshards> <from> <only|-> <deadline>
            if std::env::var("VX_NO_STACK_CACHE").is_err() {
                stackcache::enable();
            }
            let fam = family(&args[2]);
            let mode = drive::mode_from_json(&serde_json::from_str(&args[4]).expect("mode json"));
            let shard: usize = args[5].parse().unwrap();
            let nshards: usize = args[6].parse().unwrap();
            let from: usize = args[7].parse().unwrap();
            let only: Option<usize> = args[8].parse().ok();
            let deadline: f64 = args[9].parse().unwrap();
            drive::worker_main(fam.as_ref(), &args[3], &mode, shard, nshards, from, only, deadline);
        }
        _ => {
            eprintln!("usage: vx-c19 check C19 quick|thorough|--replay <file>");
            std::process::exit(2);
        }
    }
}
