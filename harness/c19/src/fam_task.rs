//! Family `ttask`: shuttle-tokio's `task::{spawn, JoinHandle, AbortHandle, JoinSet}` (plus the time
//! subset) — "task spawning, JoinHandle and abort behave as in C17".
//!
//! The generic task operations of the program IR (`Spawn`, `Join`, `Abort`, `Detach`, `IsFinished`)
//! are executed here through the tokio replacements instead of `shuttle::future`: `task::spawn`,
//! awaiting the `JoinHandle` (output, or a `JoinError` with `is_cancelled()`), `JoinHandle::abort`,
//! dropping the handle, `is_finished`; children listed in `cfg.joinset` are spawned into a `JoinSet`
//! (`JoinSet::spawn` → `AbortHandle`, `join_next`).  The reference model is the generic executor
//! model of C17 (vx::prog): await yields the output exactly once, or Cancelled iff an abort took
//! effect before completion; abort is idempotent and takes effect at an await point; a dropped
//! handle detaches.
//!
//! Task bodies use a tokio `Semaphore` (blocking point that an abort can hit), `yield_now`, and the
//! time subset: `sleep` (completes), `interval().tick()` (completes), `timeout(acquire)` with the
//! wrapper's `trigger_timeouts` / `clear_triggers` hooks.

use crate::driver::{Body, XFamily};
use crate::fam_lock::{Acq, FairSem};
use shuttle_tokio_impl_inner as stk;
use std::cell::{Cell, RefCell};
use std::future::Future;
use std::pin::Pin;
use std::sync::Arc;
use std::time::Duration;
use vx::prog::*;

#[derive(Clone, Debug, PartialEq, Eq, Hash)]
pub enum TOp {
    /// `task::yield_now().await`
    Yield,
    /// `time::sleep(1ms).await`
    Sleep,
    /// `time::interval(1ms).tick().await`
    Tick,
    /// `sem.acquire().await` (the permit is forgotten: a one-way signal)
    Acquire,
    /// `sem.add_permits(1)`
    AddPermit,
    /// `time::timeout(1s, sem.acquire()).await`
    TimeoutAcquire,
    /// `time::trigger_timeouts(|_| true)`
    TriggerAll,
    /// `time::clear_triggers()`
    ClearTriggers,
}

#[derive(Clone, Debug, PartialEq, Eq, Hash, PartialOrd, Ord)]
pub enum TRes {
    Unit,
    Ok,
    Elapsed,
}

#[derive(Clone, Debug)]
pub struct TCfg {
    /// children spawned into a `JoinSet` (owned by the interpreter on behalf of main)
    pub joinset: Vec<usize>,
}

pub struct TObjs {
    sem: stk::sync::Semaphore,
}

#[derive(Clone, Debug, PartialEq, Eq, Hash)]
pub struct TM {
    sem: FairSem,
    /// a trigger is registered: timeouts created from now on are born expired
    triggered: bool,
    /// the thread's live timeout has expired
    expired: Vec<bool>,
    /// the thread has a live timeout
    live: Vec<bool>,
}

/// `TIME = true`: the sub-family `ttime` (programs that use the `trigger_timeouts` hook; kept apart
/// because none of their executions may fail — see `program_set`)
pub struct TaskFam<const TIME: bool>;

impl<const TIME: bool> Family for TaskFam<TIME> {
    type Op = TOp;
    type Res = TRes;
    type Cfg = TCfg;
    type Objs = TObjs;
    type Locals = ();
    type M = TM;
    const NAME: &'static str = if TIME { "ttime" } else { "ttask" };
    const ASYNC: bool = true;

    fn make_objs(_cfg: &TCfg, _n: usize) -> TObjs {
        TObjs { sem: stk::sync::Semaphore::new(0) }
    }
    fn new_locals(_cfg: &TCfg, _t: usize) {}
    fn exec(_o: &TObjs, _l: &mut (), _t: usize, _op: &TOp) -> TRes {
        unreachable!("async family")
    }
    fn exec_async<'a>(o: &'a TObjs, _l: &'a mut (), _t: usize, op: &'a TOp) -> Pin<Box<dyn Future<Output = TRes> + 'a>> {
        Box::pin(async move {
            match op {
                TOp::Yield => {
                    stk::task::yield_now().await;
                    TRes::Unit
                }
                TOp::Sleep => {
                    stk::time::sleep(Duration::from_millis(1)).await;
                    TRes::Unit
                }
                TOp::Tick => {
                    let mut i = stk::time::interval(Duration::from_millis(1));
                    i.tick().await;
                    TRes::Unit
                }
                TOp::Acquire => {
                    let p = o.sem.acquire().await.expect("never closed");
                    // keep the permit for good without running its destructor (`SemaphorePermit::forget`
                    // ends in `add_permits(0)`, a scheduling point after the acquisition)
                    std::mem::forget(p);
                    TRes::Ok
                }
                TOp::AddPermit => {
                    o.sem.add_permits(1);
                    TRes::Unit
                }
                TOp::TimeoutAcquire => match stk::time::timeout(Duration::from_secs(1), o.sem.acquire()).await {
                    Ok(p) => {
                        std::mem::forget(p.expect("never closed"));
                        TRes::Ok
                    }
                    Err(_) => TRes::Elapsed,
                },
                TOp::TriggerAll => {
                    stk::time::trigger_timeouts(|_| true);
                    TRes::Unit
                }
                TOp::ClearTriggers => {
                    stk::time::clear_triggers();
                    TRes::Unit
                }
            }
        })
    }

    fn yields(op: &TOp) -> Option<bool> {
        match op {
            TOp::Yield | TOp::Sleep | TOp::Tick => Some(true),
            _ => Some(false),
        }
    }
    fn m_abortable(op: &TOp, _phase: u8) -> bool {
        match op {
            TOp::Yield | TOp::Sleep | TOp::Tick => true,
            TOp::Acquire | TOp::TimeoutAcquire => true,
            _ => true,
        }
    }
    fn m_on_finish(m: &mut TM, t: usize) {
        // a cancelled task withdraws its request and its timeout
        m.sem.cancel(t as u8);
        m.live[t] = false;
        m.expired[t] = false;
    }
    fn objects_of(_op: &TOp) -> Vec<u32> {
        vec![0xC50]
    }
    fn m_init(_cfg: &TCfg, n: usize) -> TM {
        TM {
            sem: FairSem::new(0),
            triggered: false,
            expired: vec![false; n],
            live: vec![false; n],
        }
    }
    fn m_step(m: &TM, t: usize, op: &TOp, phase: u8, _strict: bool) -> Vec<MStep<TM, TRes>> {
        let mut n = m.clone();
        let id = t as u8;
        match op {
            TOp::Yield | TOp::Sleep | TOp::Tick => vec![MStep::Done(n, TRes::Unit)],
            TOp::Acquire => {
                let r = if phase == 0 { n.sem.arrive(id, 1) } else { n.sem.complete(id) };
                match r {
                    Some(Acq::Ok) => vec![MStep::Done(n, TRes::Ok)],
                    Some(_) => unreachable!("never closed"),
                    None => {
                        if phase == 0 {
                            vec![MStep::Cont(n, 1)]
                        } else {
                            vec![]
                        }
                    }
                }
            }
            TOp::AddPermit => {
                n.sem.release(1);
                vec![MStep::Done(n, TRes::Unit)]
            }
            TOp::TimeoutAcquire => match phase {
                0 => {
                    // the timeout is created (expired at birth if a trigger is registered) and polled
                    if n.triggered {
                        return vec![MStep::Done(n, TRes::Elapsed)];
                    }
                    n.live[t] = true;
                    n.expired[t] = false;
                    vec![MStep::Cont(n, 2)]
                }
                2 => {
                    // first poll of the inner acquisition; a trigger may have fired meanwhile, which
                    // is looked at after the inner poll
                    match n.sem.arrive(id, 1) {
                        Some(Acq::Ok) => {
                            n.live[t] = false;
                            n.expired[t] = false;
                            vec![MStep::Done(n, TRes::Ok)]
                        }
                        Some(_) => unreachable!("never closed"),
                        None => {
                            if n.expired[t] {
                                n.sem.cancel(id);
                                n.live[t] = false;
                                n.expired[t] = false;
                                vec![MStep::Done(n, TRes::Elapsed)]
                            } else {
                                vec![MStep::Cont(n, 1)]
                            }
                        }
                    }
                }
                _ => {
                    if n.expired[t] {
                        n.sem.cancel(id);
                        n.live[t] = false;
                        n.expired[t] = false;
                        vec![MStep::Done(n, TRes::Elapsed)]
                    } else {
                        match n.sem.complete(id) {
                            Some(Acq::Ok) => {
                                n.live[t] = false;
                                vec![MStep::Done(n, TRes::Ok)]
                            }
                            Some(_) => unreachable!("never closed"),
                            None => vec![],
                        }
                    }
                }
            },
            TOp::TriggerAll => {
                n.triggered = true;
                for i in 0..n.live.len() {
                    if n.live[i] {
                        n.expired[i] = true;
                    }
                }
                vec![MStep::Done(n, TRes::Unit)]
            }
            TOp::ClearTriggers => {
                n.triggered = false;
                vec![MStep::Done(n, TRes::Unit)]
            }
        }
    }

    /// as in C17: the future of a joined task has been dropped before the join returns, the task
    /// performs no step afterwards, Cancelled iff it did not run to completion
    fn monitor(p: &Program<TaskFam<TIME>>, rec: &ExecRecord<TRes>) -> Option<(String, String)> {
        for (i, e) in rec.log.iter().enumerate() {
            if let EKind::Ret(GRes::Joined(ok)) = &e.kind {
                if let GOp::Join(c) = &p.threads[e.thread][e.op] {
                    let tag = format!("future-dropped t{}", c);
                    let dropped_at = rec.aux.iter().find(|a| a.what == tag).map(|a| a.after);
                    match dropped_at {
                        None => {
                            return Some((
                                "join-before-future-dropped".into(),
                                format!("awaiting task {}'s JoinHandle returned ({}) but its future was never dropped", c, if *ok { "output" } else { "Cancelled" }),
                            ))
                        }
                        Some(pos) => {
                            if pos > i {
                                return Some(("join-before-future-dropped".into(), format!("awaiting task {}'s JoinHandle returned before its future was dropped", c)));
                            }
                            if rec.log.iter().skip(pos).any(|x| x.thread == *c) {
                                return Some(("step-after-drop".into(), format!("task {} logged a step after its future was dropped", c)));
                            }
                        }
                    }
                    let ended = rec.log.iter().any(|x| x.thread == *c && x.kind == EKind::End);
                    if ended && !*ok {
                        return Some(("cancelled-after-completion".into(), format!("task {} ran to completion but its JoinHandle yielded Cancelled", c)));
                    }
                    if !ended && *ok {
                        return Some(("output-without-completion".into(), format!("task {} never completed but its JoinHandle yielded an output", c)));
                    }
                }
            }
        }
        None
    }
}

// ---------------------------------------------------------------------------------------------
// The interpreter: vx::prog::run_task with shuttle-tokio's task API
// ---------------------------------------------------------------------------------------------

thread_local! {
    static LOG_LEN: Cell<usize> = const { Cell::new(0) };
}

enum Handle {
    Join(stk::task::JoinHandle<u32>),
    /// a member of the JoinSet
    Set(stk::task::AbortHandle),
}

struct Ctx<const TIME: bool> {
    prog: Arc<SS<Program<TaskFam<TIME>>>>,
    objs: TObjs,
    handles: RefCell<Vec<Option<Handle>>>,
    joinset: RefCell<stk::task::JoinSet<u32>>,
    /// results taken out of the JoinSet while waiting for another member: (child, output?)
    stash: RefCell<Vec<(usize, bool)>>,
    log: Logs<TRes>,
}

struct FutureDropLog(usize);
impl Drop for FutureDropLog {
    fn drop(&mut self) {
        let task: usize = shuttle::current::get_current_task().map(|t| t.into()).unwrap_or(usize::MAX);
        let what = format!("future-dropped t{}", self.0);
        AUX.with(|a| {
            a.borrow_mut().push(AuxEntry {
                stamp: vx::explore::decision_stamp(),
                after: LOG_LEN.with(|l| l.get()),
                task,
                what,
            })
        });
    }
}

struct Logged<Fu> {
    fut: Fu,
    _g: FutureDropLog,
}
impl<Fu: Future> Future for Logged<Fu> {
    type Output = Fu::Output;
    fn poll(self: Pin<&mut Self>, cx: &mut std::task::Context<'_>) -> std::task::Poll<Fu::Output> {
        unsafe { self.map_unchecked_mut(|s| &mut s.fut) }.poll(cx)
    }
}

fn run_task<const TIME: bool>(ctx: Arc<SS<Ctx<TIME>>>, t: usize) -> Pin<Box<dyn Future<Output = u32>>> {
    Box::pin(async move {
        let c = &ctx.0;
        let me: usize = shuttle::current::me().into();
        let push = |op: usize, kind: EKind<TRes>| {
            let mut l = c.log.borrow_mut();
            let cur = l.last_mut().expect("log of current execution");
            cur.push(Entry {
                stamp: vx::explore::decision_stamp(),
                thread: t,
                task: me,
                op,
                clock: Vec::new(),
                kind,
            });
            LOG_LEN.with(|n| n.set(cur.len()));
        };
        push(0, EKind::Start);
        let ops = &c.prog.0.threads[t];
        let in_set = |ch: usize| c.prog.0.cfg.joinset.contains(&ch);
        for (i, op) in ops.iter().enumerate() {
            push(i, EKind::Call);
            let r = match op {
                GOp::Spawn(ch) => {
                    let ch = *ch;
                    let fut = SendFut(Logged {
                        fut: run_task(ctx.clone(), ch),
                        _g: FutureDropLog(ch),
                    });
                    let h = if in_set(ch) {
                        // JoinSet::spawn goes through crate::spawn as well
                        let mut js = c.joinset.borrow_mut();
                        Handle::Set(js.spawn(fut))
                    } else {
                        Handle::Join(stk::task::spawn(fut))
                    };
                    c.handles.borrow_mut()[ch] = Some(h);
                    GRes::Spawned
                }
                GOp::Join(ch) => {
                    let h = c.handles.borrow_mut()[*ch].take().expect("await without handle");
                    match h {
                        Handle::Join(jh) => match jh.await {
                            Ok(v) => {
                                assert_eq!(v, thread_ret(*ch), "joined value");
                                GRes::Joined(true)
                            }
                            Err(e) => {
                                assert!(e.is_cancelled(), "JoinError that is not a cancellation");
                                GRes::Joined(false)
                            }
                        },
                        Handle::Set(_) => {
                            // take results out of the set until this child's appears
                            loop {
                                let pos = c.stash.borrow().iter().position(|s| s.0 == *ch);
                                if let Some(p) = pos {
                                    let (_, ok) = c.stash.borrow_mut().remove(p);
                                    break GRes::Joined(ok);
                                }
                                // (the JoinSet is only touched by the thread that owns it)
                                let mut js = std::mem::take(&mut *c.joinset.borrow_mut());
                                let r = js.join_next().await;
                                // put the set back, keeping members spawned meanwhile (none: same owner)
                                *c.joinset.borrow_mut() = js;
                                match r {
                                    None => panic!("join_next returned None although member {} has not been joined", ch),
                                    Some(Ok(v)) => {
                                        let who = (v - thread_ret(0)) as usize;
                                        c.stash.borrow_mut().push((who, true));
                                    }
                                    Some(Err(e)) => {
                                        assert!(e.is_cancelled(), "JoinError that is not a cancellation");
                                        // programs abort at most one member of the set
                                        let who = c.prog.0.threads.iter().flatten().find_map(|o| match o {
                                            GOp::Abort(x) if in_set(*x) => Some(*x),
                                            _ => None,
                                        });
                                        c.stash.borrow_mut().push((who.expect("cancelled member without an abort in the program"), false));
                                    }
                                }
                            }
                        }
                    }
                }
                GOp::Abort(ch) => {
                    let h = c.handles.borrow_mut()[*ch].take().expect("abort without handle");
                    match &h {
                        Handle::Join(jh) => jh.abort(),
                        Handle::Set(ah) => ah.abort(),
                    }
                    c.handles.borrow_mut()[*ch] = Some(h);
                    GRes::Unit
                }
                GOp::Detach(ch) => {
                    let h = c.handles.borrow_mut()[*ch].take().expect("detach without handle");
                    match h {
                        Handle::Join(jh) => drop(jh),
                        Handle::Set(_) => panic!("ill-formed program: detach of a JoinSet member"),
                    }
                    GRes::Unit
                }
                GOp::PollJoin(_) => unreachable!("not used by this family"),
                GOp::IsFinished(ch) => {
                    let hs = c.handles.borrow();
                    let b = match hs[*ch].as_ref().expect("is_finished without handle") {
                        Handle::Join(jh) => jh.is_finished(),
                        Handle::Set(ah) => ah.is_finished(),
                    };
                    GRes::Bool(b)
                }
                GOp::Op(o) => {
                    let mut unit = ();
                    GRes::R(TaskFam::<TIME>::exec_async(&c.objs, &mut unit, t, o).await)
                }
                GOp::ScopeBegin(_) | GOp::ScopeEnd => unreachable!("scope in an async program"),
            };
            push(i, EKind::Ret(r));
        }
        push(ops.len(), EKind::End);
        thread_ret(t)
    })
}

fn make_body_tokio<const TIME: bool>(prog: &Arc<SS<Program<TaskFam<TIME>>>>, logs: &Logs<TRes>, auxs: &AuxLogs) -> Body {
    let prog = prog.clone();
    let logs = SS(logs.clone());
    let auxs = SS(auxs.clone());
    Box::new(move || {
        let n = prog.get().threads.len();
        let prev = AUX.with(|a| std::mem::take(&mut *a.borrow_mut()));
        if !logs.get().borrow().is_empty() {
            auxs.get().borrow_mut().push(prev);
        }
        LOG_LEN.with(|l| l.set(0));
        logs.get().borrow_mut().push(Vec::new());
        // harness hygiene: the wrapper's trigger table is a process-wide std thread-local that
        // survives executions; every execution starts from an empty one
        stk::time::clear_triggers();
        let ctx = Arc::new(SS(Ctx::<TIME> {
            prog: prog.clone(),
            objs: TaskFam::<TIME>::make_objs(&prog.get().cfg, n),
            handles: RefCell::new((0..n).map(|_| None).collect()),
            joinset: RefCell::new(stk::task::JoinSet::new()),
            stash: RefCell::new(Vec::new()),
            log: logs.get().clone(),
        }));
        // the wrapper's Runtime::block_on
        let rt = stk::runtime::Runtime::new().expect("runtime");
        rt.block_on(run_task(ctx, 0));
    })
}

impl<const TIME: bool> XFamily for TaskFam<TIME> {
    fn body(prog: &Arc<SS<Program<Self>>>, logs: &Logs<TRes>, auxs: &AuxLogs) -> Body {
        make_body_tokio(prog, logs, auxs)
    }
}

// ---------------------------------------------------------------------------------------------
// Program generation (the shapes of the C17 family)
// ---------------------------------------------------------------------------------------------

fn g(ops: &[TOp]) -> Vec<GOp<TOp>> {
    ops.iter().cloned().map(GOp::Op).collect()
}

pub fn program_set<const TIME: bool>(set: &str) -> Vec<Program<TaskFam<TIME>>> {
    let thorough = set == "thorough";
    let mut out: Vec<Program<TaskFam<TIME>>> = Vec::new();
    if TIME {
        return time_programs(thorough);
    }
    let bodies: Vec<Vec<TOp>> = vec![
        vec![],
        vec![TOp::Yield],
        vec![TOp::Acquire],
        vec![TOp::AddPermit],
        vec![TOp::Yield, TOp::AddPermit],
        vec![TOp::Acquire, TOp::AddPermit],
        vec![TOp::Sleep],
        vec![TOp::Tick, TOp::AddPermit],
        vec![TOp::TimeoutAcquire],
        vec![TOp::AddPermit, TOp::Yield],
        vec![TOp::Acquire, TOp::Acquire],
    ];
    #[derive(Clone, Copy, PartialEq)]
    enum H {
        Join,
        Detach,
        AbortJoin,
        AbortAbortJoin,
        AbortDetach,
        IsFinJoin,
        Leave,
        YieldAbortJoin,
    }
    let hs = [H::Join, H::Detach, H::AbortJoin, H::AbortAbortJoin, H::AbortDetach, H::IsFinJoin, H::Leave, H::YieldAbortJoin];
    let main_mid: Vec<Vec<TOp>> = vec![vec![], vec![TOp::AddPermit], vec![TOp::Yield]];
    for (i1, b1) in bodies.iter().enumerate() {
        for (i2, b2) in bodies.iter().enumerate() {
            if !thorough && (i2 > 3 || i1 > 8) {
                continue;
            }
            for h in hs {
                for mid in &main_mid {
                    if !thorough && !mid.is_empty() && matches!(h, H::AbortAbortJoin | H::IsFinJoin | H::YieldAbortJoin | H::Leave) {
                        continue;
                    }
                    let mut main: Vec<GOp<TOp>> = vec![GOp::Spawn(1), GOp::Spawn(2)];
                    main.extend(g(mid));
                    match h {
                        H::Join => main.push(GOp::Join(1)),
                        H::Detach => main.push(GOp::Detach(1)),
                        H::AbortJoin => {
                            main.push(GOp::Abort(1));
                            main.push(GOp::Join(1));
                        }
                        H::AbortAbortJoin => {
                            main.push(GOp::Abort(1));
                            main.push(GOp::Abort(1));
                            main.push(GOp::Join(1));
                        }
                        H::AbortDetach => {
                            main.push(GOp::Abort(1));
                            main.push(GOp::Detach(1));
                        }
                        H::IsFinJoin => {
                            main.push(GOp::IsFinished(1));
                            main.push(GOp::Join(1));
                        }
                        H::Leave => {}
                        H::YieldAbortJoin => {
                            main.push(GOp::Op(TOp::Yield));
                            main.push(GOp::Abort(1));
                            main.push(GOp::Join(1));
                        }
                    }
                    for tail in 0..3 {
                        let mut m2 = main.clone();
                        match tail {
                            0 => m2.push(GOp::Join(2)),
                            1 => m2.push(GOp::Detach(2)),
                            _ => {}
                        }
                        let size = m2.len() + b1.len() + b2.len();
                        if size > if thorough { 9 } else { 6 } {
                            continue;
                        }
                        out.push(Program {
                            cfg: TCfg { joinset: vec![] },
                            threads: vec![m2.clone(), g(b1), g(b2)],
                        });
                        // the same with both children in a JoinSet (no detach of members, every
                        // member joined, at most one aborted)
                        let detaches = m2.iter().any(|o| matches!(o, GOp::Detach(_)));
                        let joins = m2.iter().filter(|o| matches!(o, GOp::Join(_))).count();
                        if !detaches && joins == 2 && (thorough || mid.is_empty()) {
                            out.push(Program {
                                cfg: TCfg { joinset: vec![1, 2] },
                                threads: vec![m2, g(b1), g(b2)],
                            });
                        }
                    }
                }
            }
        }
    }
    // JoinSet members joined in the order opposite to completion
    for b1 in bodies.iter().take(6) {
        for b2 in bodies.iter().take(6) {
            let main = vec![GOp::Spawn(1), GOp::Spawn(2), GOp::Join(2), GOp::Join(1)];
            if b1.len() + b2.len() <= 3 {
                out.push(Program {
                    cfg: TCfg { joinset: vec![1, 2] },
                    threads: vec![main, g(b1), g(b2)],
                });
            }
        }
    }
    // nested spawn: task 1 spawns task 2 and awaits / detaches / aborts it
    for b2 in bodies.iter().take(6) {
        for variant in 0..4 {
            let mut t1 = vec![GOp::Spawn(2)];
            match variant {
                0 => t1.push(GOp::Join(2)),
                1 => t1.push(GOp::Detach(2)),
                2 => {
                    t1.push(GOp::Abort(2));
                    t1.push(GOp::Join(2));
                }
                _ => {}
            }
            for mid in &main_mid {
                let mut main = vec![GOp::Spawn(1)];
                main.extend(g(mid));
                main.push(GOp::Join(1));
                out.push(Program {
                    cfg: TCfg { joinset: vec![] },
                    threads: vec![main, t1.clone(), g(b2)],
                });
            }
        }
    }
    out.sort_by_key(|p| p.size());
    out
}

/// Timeouts forced by the wrapper's `trigger_timeouts` hook.  The wrapper keeps its table of live
/// timeouts in a plain `std` thread-local; an execution that FAILS with a timeout still pending
/// leaves its entry behind, and `trigger_timeouts` in any later execution on that thread then
/// panics (`probe-timeleak deadlock` reproduces it without the explorer).  That is a defect of
/// isolation between executions (C14), not of the operation's contract; so that the verdicts of
/// this check do not depend on which programs a worker process has run before, the programs that
/// call the hook live in a family of their own in which no execution can fail.
fn time_programs<const TIME: bool>(thorough: bool) -> Vec<Program<TaskFam<TIME>>> {
    let mut out = Vec::new();
    let mut children = vec![vec![TOp::TimeoutAcquire], vec![TOp::TimeoutAcquire, TOp::TimeoutAcquire], vec![TOp::Yield, TOp::TimeoutAcquire]];
    if thorough {
        children.push(vec![TOp::TimeoutAcquire, TOp::Yield, TOp::TimeoutAcquire]);
        children.push(vec![TOp::Sleep, TOp::TimeoutAcquire]);
    }
    let mut mids = vec![vec![TOp::TriggerAll], vec![TOp::AddPermit, TOp::TriggerAll], vec![TOp::TriggerAll, TOp::AddPermit], vec![TOp::Yield, TOp::TriggerAll]];
    if thorough {
        mids.push(vec![TOp::AddPermit, TOp::AddPermit, TOp::TriggerAll]);
        mids.push(vec![TOp::TriggerAll, TOp::ClearTriggers, TOp::TriggerAll]);
    }
    for child in &children {
        for mid in &mids {
            let mut main = vec![GOp::Spawn(1)];
            main.extend(g(mid));
            main.push(GOp::Join(1));
            main.push(GOp::Op(TOp::ClearTriggers));
            out.push(Program {
                cfg: TCfg { joinset: vec![] },
                threads: vec![main, g(child)],
            });
            // two tasks with timeouts
            let mut main2 = vec![GOp::Spawn(1), GOp::Spawn(2)];
            main2.extend(g(mid));
            main2.push(GOp::Join(1));
            main2.push(GOp::Join(2));
            main2.push(GOp::Op(TOp::ClearTriggers));
            if thorough || child.len() == 1 {
                out.push(Program {
                    cfg: TCfg { joinset: vec![] },
                    threads: vec![main2, g(child), g(&[TOp::TimeoutAcquire])],
                });
            }
        }
    }
    out.sort_by_key(|p| p.size());
    out
}
