#!/bin/sh
# Offline build of the verification harness against /repo's working tree.
set -e
cd /verif/harness
export CARGO_NET_OFFLINE=true
exec cargo build --release --offline -q
