#!/bin/bash
# Run every claimed property's check at the given tier, sequentially; one summary line each.
# usage: tools/run_all.sh quick|thorough [ID...]   (log: /verif/target/run_all_<tier>.log)
tier=${1:-quick}; shift
ids=("$@")
if [ ${#ids[@]} -eq 0 ]; then
  ids=($(python3 -c "import json;print(' '.join(p['property_id'] for p in json.load(open('/verif/MANIFEST.json'))['checks']))"))
fi
log=/verif/target/run_all_$tier.log
mkdir -p /verif/target/run_all
for id in "${ids[@]}"; do
  s=$(date +%s)
  /verif/check $id $tier > /verif/target/run_all/$id.$tier.out 2>&1
  rc=$?
  e=$(date +%s)
  echo "$id $tier rc=$rc wall=$((e-s))s $(grep -c '^VIOLATION' /verif/target/run_all/$id.$tier.out) violations, $(grep -c '^KNOWN-FINDING' /verif/target/run_all/$id.$tier.out) known" | tee -a $log
done
