#!/usr/bin/env python3
"""Regenerates /verif/MANIFEST.json from the table below (single source of truth for what is claimed)."""
import json, subprocess

CLAIMED = {
 "C04": dict(level="model_checking", engine="e2-lock,e2-atomic",
   technique="stateless exhaustive exploration of the real primitives under an explorer plugged in as Shuttle's Scheduler + explicit-state BFS of a reference lock model + step-by-step co-simulation (trace conformance) of every execution",
   text="Every schedule of every generated program (<=3 threads, <=3-4 ops each over Mutex/RwLock lock/try/unlock incl. re-entrant tries) is executed against the real shuttle::sync primitives and co-simulated on a contract model (holder/readers/writer): each return value, each point where a task that could run is not offered, and each ending must be allowed by the model. Exhaustive within the stated program sizes.",
   note="Trusted: the reference model (Appendix A of DESIGN.md), the explorer's determinism self-check, Shuttle's own Task::runnable() flags only for preemption counting. Small-scope hypothesis for program size.",
   design="DESIGN.md §4 C04"),
}

REASON_WIP = "check not built yet (work in progress; see DESIGN.md for the plan)"

def main():
    props=[json.loads(l) for l in open('/verif/properties.jsonl')]
    hooks_commits=[]
    try:
        out=subprocess.run(['git','-C','/repo','log','--format=%h %s'],capture_output=True,text=True).stdout
        hooks_commits=[l.split()[0] for l in out.splitlines() if l.split(' ',1)[1].startswith('verif-hooks:')]
    except Exception: pass
    checks=[]
    na=[]
    for p in props:
        i=p['id']
        if i in CLAIMED:
            c=CLAIMED[i]
            checks.append({
              "property_id": i,
              "quick_cmd": f"./check {i} quick",
              "thorough_cmd": f"./check {i} thorough",
              "evidence_file": f"/verif/evidence/{i}.json",
              "replay_cmd_template": f"./check {i} --replay {{path}}",
              "engine": c["engine"],
              "level_claimed": {"category": c["level"], "text": c["text"], "design_ref": c["design"]},
              "level_note": c["note"],
              "technique": c["technique"],
            })
        else:
            na.append({"property_id": i, "reason": REASON_WIP})
    m={"version":1,"setup_cmd":"./setup.sh",
     "hooks":{"guard":"verif-hooks","enable":"cargo feature `verif-hooks` of shuttle-engine / shuttle-schedulers, enabled by the harness's Cargo.toml (no hook is needed so far: everything uses public API)","baseline_off_cmd":"cd /repo && cargo nextest run --workspace --no-fail-fast --tool-config-file pb:/w/lib/nextest.toml --profile pb --test-threads 8 --offline","source_commits":hooks_commits,"add_only":True},
     "engines":[
       {"name":"vx","path":"/verif/harness/vx","serves_properties":sorted(CLAIMED.keys()),"kind_free_text":"Rust binary: explorer-as-Scheduler (stateless DFS of the runtime's choice tree), program IR + interpreters, reference models with explicit-state BFS and NFA co-simulation, scheduler-automaton drivers, enumerators"}],
     "checks":checks,
     "notes":"./check <id> quick|thorough rebuilds the harness against /repo's working tree, runs the engines in worker processes (16 shards), writes evidence/<id>.json and replays/<id>/*.json. Exit 0 held / 1 violation / 2 machinery error. known_findings.json lists recorded and fixed findings.",
     "not_applicable":na}
    json.dump(m,open('/verif/MANIFEST.json','w'),indent=1)
    print("claimed:",sorted(CLAIMED.keys()))
main()
