#!/usr/bin/env python3
"""Regenerates /verif/MANIFEST.json from the table below (single source of truth for what is claimed)."""
import json, subprocess

CLAIMED = {
 "C04": dict(level="model_checking", engine="e2-lock,e2-atomic",
   technique="stateless exhaustive exploration of the real primitives under an explorer plugged in as Shuttle's Scheduler + explicit-state BFS of a reference lock model + step-by-step co-simulation (trace conformance) of every execution",
   text="Every schedule of every generated program (<=3 threads, <=3-4 ops each over Mutex/RwLock lock/try/unlock incl. re-entrant tries) is executed against the real shuttle::sync primitives and co-simulated on a contract model (holder/readers/writer): each return value, each point where a task that could run is not offered, and each ending must be allowed by the model. Exhaustive within the stated program sizes.",
   note="Trusted: the reference model (Appendix A of DESIGN.md), the explorer's determinism self-check, Shuttle's own Task::runnable() flags only for preemption counting. Small-scope hypothesis for program size.",
   design="DESIGN.md §4 C04"),
 "C05": dict(level="model_checking", engine="e2-sync",
   technique="stateless exhaustive exploration of real Condvar/Barrier/Once/park programs under the explorer-scheduler + explicit-state BFS of reference models + step-by-step co-simulation of every execution",
   text="Every schedule of every generated program over Condvar wait/wait_while/notify_one/notify_all (2-4 waiters/notifiers, racing notify_one, the 5-thread epoch scenario), Barrier (bounds 0-3, reuse, two barriers), Once (racing and nested call_once, is_completed), park/unpark (tokens, double unpark, spurious wake-ups), also inside thread::scope bodies, is run on the real primitives and co-simulated on contract models: a wait returns only after a matching notification, notify_one releases at most one present waiter, barrier groups/leader, exactly one initialiser, token is boolean; lost wake-ups show up as a model-enabled task that is not offered or as a deadlock the model does not have.",
   note="Trusted: reference models (Appendix A), explorer determinism self-check. No spurious Condvar wake-ups are modelled because the property says wait returns only after a notification. Small-scope hypothesis.",
   design="DESIGN.md §4 C05"),
 "C06": dict(level="model_checking", engine="e2-mpsc",
   technique="stateless exhaustive exploration of real mpsc programs under the explorer-scheduler + explicit-state BFS of a FIFO channel model + step-by-step co-simulation of every execution",
   text="Every schedule of every generated program (1-3 senders incl. main, one receiver, capacities unbounded/0/1/2, send/try_send/recv/try_recv, explicit drop of every endpoint at every position, recv inside scope bodies) on the real channels, co-simulated on a FIFO model with FIFO blocked-sender queue: every returned value/error, every blocking and every wake-up must be allowed by the model (exactly-once, order, capacity, rendezvous hand-off, drain-before-disconnect follow from the model's state invariants).",
   note="Trusted: the channel model (Appendix A); loose variant (blocked senders in any order) judges return values, strict (FIFO, Shuttle's documented discipline) judges which tasks must be runnable. Small-scope hypothesis.",
   design="DESIGN.md §4 C06"),
 "C07": dict(level="model_checking", engine="e2-thread",
   technique="stateless exhaustive exploration of real spawn/join/scope/thread-local programs under the explorer-scheduler + reference model co-simulation + life-cycle monitor over logged init/drop events",
   text="Every schedule of every generated program with nested spawns, joins in every order and by non-parents, unjoined threads, scopes (nested, with 1-2 scoped threads), named threads, thread::current(), and three thread-local keys whose destructors log, touch another key, or contain a scheduling point and touch themselves, plus a const-initialised key: closure runs once, join returns the closure's value after all of the child's destructors, scope end waits for scoped threads, per-thread instances, destruction exactly once in initialisation order, AccessError instead of resurrection, ids/names consistent.",
   note="Trusted: the expected thread-local event sequence computed by the monitor from the program text; model for spawn/join/scope. Small-scope hypothesis.",
   design="DESIGN.md §4 C07"),
 "C16": dict(level="exploration", engine="c16",
   technique="bounded-exhaustive enumeration of Schedule values and of malformed strings against an independent reference decoder (enumeration of inputs, not sampling)",
   text="All step sequences over {Task(a),Task(b),Random} up to length 7 (11 thorough) for 9 id pairs at bit-width boundaries, 21 varint-boundary seeds x 128 boundary ids x 7 shapes, 12 patterns x every length 0..400 (1200), each in 6 strict printed forms and up to 8 re-formatted forms; every proper prefix per hex digit up to a bound, header digit substitutions, every wrong magic byte, width fields 0 / >64, length fields beyond the payload: round-trip must be exact; malformed input must give None and never panic/abort (decodes run in supervised child processes).",
   note="Trusted: the independent reference reader (refdec.rs), cross-checked against layout arithmetic; padding-only truncation is not required to be rejected (statement: 'cut short' = a needed bit is missing).",
   design="DESIGN.md §4 C16"),
 "C17": dict(level="model_checking", engine="e2-async",
   technique="stateless exhaustive exploration of real async programs (future::spawn / block_on / yield_now / JoinHandle await-abort-drop-is_finished / hand-written leaf futures) under the explorer-scheduler + explicit-state BFS of an executor model + step-by-step co-simulation + future-drop monitor",
   text="Every schedule of every generated program with 3 tasks (main under block_on): leaf futures that register the polling task's waker and are woken by another task, by themselves during poll (yield_now), or never; futures created and first polled in one task and awaited in another; nested block_on inside a task; JoinHandle awaited / aborted (before first poll, while pending, after completion, twice) / dropped (detach) / is_finished; nested spawns. Co-simulated on the executor model: a task able to progress is offered, a never-woken task is not; await yields the output exactly once or Cancelled iff the abort took effect, in which case the future was dropped before and performs no further step; detached tasks are cut off and never cause a deadlock report.",
   note="Trusted: executor model (Appendix A); abort timing is loose (cancellation may happen at any later poll, never inside a nested block_on). Small-scope hypothesis.",
   design="DESIGN.md §4 C17"),
 "C18": dict(level="model_checking", engine="e2-sem",
   technique="stateless exhaustive exploration of real BatchSemaphore programs under the explorer-scheduler + explicit-state BFS of a counter+queue model with permit ledger + step-by-step co-simulation; executions the reference model rejects are re-checked against a weakened model that encodes the two recorded findings",
   text="Every schedule of every generated program over acquire_blocking/try_acquire/release/close/available_permits and manually polled, awaited, cancelled and handed-over Acquire futures, permits 0-1 (0-3 thorough), batch sizes 1-2, both fairness modes, 2-3 tasks, on the real semaphore; co-simulated on the reference model (strict FIFO with grant in the releasing step / bag of waiters), whose ledger invariant avail+acquired+granted = initial+released is asserted in every state.",
   note="Trusted: the reference model (Appendix A) and, for the two known findings only, the weakened model that describes them precisely (so any other deviation is still a violation). Small-scope hypothesis.",
   design="DESIGN.md §4 C18"),
}

REASON_WIP = "check not built yet (work in progress; see DESIGN.md for the plan)"

def main():
    props=[json.loads(l) for l in open('/verif/properties.jsonl')]
    hooks_commits=[]
    try:
        out=subprocess.run(['git','-C','/repo','log','--format=%h %s'],capture_output=True,text=True).stdout
        hooks_commits=[l.split()[0] for l in out.splitlines() if l.split(' ',1)[1].startswith('verif-hooks:')]
    except Exception: pass
    checks=[]
    na=[]
    for p in props:
        i=p['id']
        if i in CLAIMED:
            c=CLAIMED[i]
            checks.append({
              "property_id": i,
              "quick_cmd": f"./check {i} quick",
              "thorough_cmd": f"./check {i} thorough",
              "evidence_file": f"/verif/evidence/{i}.json",
              "replay_cmd_template": f"./check {i} --replay {{path}}",
              "engine": c["engine"],
              "level_claimed": {"category": c["level"], "text": c["text"], "design_ref": c["design"]},
              "level_note": c["note"],
              "technique": c["technique"],
            })
        else:
            na.append({"property_id": i, "reason": REASON_WIP})
    m={"version":1,"setup_cmd":"./setup.sh",
     "hooks":{"guard":"verif-hooks","enable":"cargo feature `verif-hooks` of shuttle-engine / shuttle-schedulers, enabled by the harness's Cargo.toml (no hook is needed so far: everything uses public API)","baseline_off_cmd":"cd /repo && cargo nextest run --workspace --no-fail-fast --tool-config-file pb:/w/lib/nextest.toml --profile pb --test-threads 8 --offline","source_commits":hooks_commits,"add_only":True},
     "engines":[
       {"name":"vx","path":"/verif/harness/vx","serves_properties":sorted(CLAIMED.keys()),"kind_free_text":"Rust binary: explorer-as-Scheduler (stateless DFS of the runtime's choice tree), program IR + interpreters, reference models with explicit-state BFS and NFA co-simulation, scheduler-automaton drivers, enumerators"}],
     "checks":checks,
     "notes":"./check <id> quick|thorough rebuilds the harness against /repo's working tree, runs the engines in worker processes (16 shards), writes evidence/<id>.json and replays/<id>/*.json. Exit 0 held / 1 violation / 2 machinery error. known_findings.json lists recorded and fixed findings.",
     "not_applicable":na}
    json.dump(m,open('/verif/MANIFEST.json','w'),indent=1)
    print("claimed:",sorted(CLAIMED.keys()))
main()
