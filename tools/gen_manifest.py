#!/usr/bin/env python3
"""Regenerates /verif/MANIFEST.json from the table below (single source of truth for what is claimed)."""
import json, subprocess

CLAIMED = {
 "C20": dict(level="model_checking", engine="c20",
   technique="E2 families over the real wrapper crates (stateless exhaustive exploration + reference models + co-simulation) for parking_lot and dashmap; exhaustive enumeration of operation histories for the deterministic collections, each built twice in-process and once in a child process; replay and isolation-pair drivers for the rand / lazy_static wrappers",
   text="parking_lot: every schedule of generated programs over all lock_api operations of RwLock/Mutex (shared/exclusive/upgradable, try_*, upgrade, three downgrades, fair unlocks) vs the lock_api contract model plus a holder/value ledger. dashmap/dashset: programs on two colliding keys incl. guards held across operations vs a plain map with a single reader/writer lock (= linearizability with real-time order). Collections: all histories of length <= 4 (5 thorough) over 19 map / 27 set operations on 3 keys: iteration order identical across instances and processes, contents equal to std, hasher still the fixed one. rand wrapper: every draw under Shuttle's control (model check under the constant data stream + replay from the recorded schedule); lazy_static wrapper: re-initialised per execution (A-then-B pairs).",
   note="Trusted: reference models written from lock_api / dashmap documentation; F7/F8 and the dashmap recursive-read finding are described by weakened models so that only those deviations are attributed to them.",
   design="DESIGN.md §4 C20"),
 "C19": dict(level="model_checking", engine="c19",
   technique="E2 families over the real shuttle-tokio implementation crate: stateless exhaustive exploration of every generated program under the explorer-scheduler (incl. a per-program menu for the random draws Notify makes) + explicit-state BFS of reference models written from tokio's documentation + step-by-step co-simulation; recorded findings are encoded as independent weakening bits and a rejected execution is attributed to the smallest set of bits that explains it",
   text="Every schedule of generated programs (tasks and plain threads) over tokio mpsc bounded(1,2)/unbounded (send/try_send/blocking_send, recv/try_recv/blocking_recv, close, capacity, drops of either end, aborted blocked tasks), oneshot, watch (incl. its value lock), Notify (notified/enable/drop, notify_one, notify_waiters), Mutex/RwLock/Semaphore (owned, blocking, try, downgrade, forget, add_permits, close, zero-permit requests, cancelled queued requests), task::spawn/JoinHandle/AbortHandle/JoinSet, time::timeout with trigger_timeouts, against linearizability-style reference models with real-time order from step stamps; deadlock/panic endings must be endings of the model.",
   note="Trusted: reference models written from tokio 1.x documentation (sources of tokio 1.53 in the cargo cache consulted for the documented behaviour). Entry points that are unimplemented!() in the wrapper are excluded as the property says; OnceCell, watch::wait_for/subscribe, JoinSet::abort_all are not covered. Small-scope hypothesis.",
   design="DESIGN.md §4 C19, §11"),
 "C01": dict(level="exploration", engine="e2-replay",
   technique="stateless exhaustive exploration of every program's complete choice tree; each execution is re-executed from the printed form of the schedule the runtime recorded, under a recording wrapper, and compared call by call and log entry by log entry",
   text="For every execution (passing, panicking, deadlocking) of the generated programs of 8 families (incl. shuttle::rand draws served from the seeded data stream): the runtime's recorded schedule equals the independently reconstructed sequence of answered scheduler calls; ReplayScheduler::new_from_encoded(printed string) reproduces every scheduler call, every draw, every operation result (incl. vector clocks) and the same ending; UncontrolledNondeterminismCheckScheduler around the same exploration never complains.",
   note="Built-in schedulers' own determinism (same seed => same run, reported seed reproduces the iteration) is decided by C09-C11. Small-scope hypothesis.",
   design="DESIGN.md §4 C01"),
 "C14": dict(level="exploration", engine="e2-iso",
   technique="exhaustive pairs (predecessor execution A, execution B) over all complete schedules and all scheduler-stopped prefixes of bodies using per-execution state; differential oracle B-after-A vs B-alone plus a drop ledger",
   text="Bodies use thread_local!, lazy_static!, a static Once, labels, vector clocks, context_switches, the step counter and drop-counted values on stacks / in statics / in thread-locals. Every complete schedule B is run as the second execution of one Runner::run after every A in {complete schedules} U {every proper prefix stopped by the scheduler}, and alone: B's complete observation log (task ids, results, clocks, counters, labels, initialisations) must be identical and no value created in A may be alive when B starts. Also: every spawned closure owns a drop-counted value (closures of never-scheduled tasks of abandoned executions must be destroyed), and predecessors taken from another body (cross-body pairs).",
   note="ContinueAfter cuts share the teardown path and are covered by C13's grid. Small bodies (6 programs, <= 60 schedules each).",
   design="DESIGN.md §4 C14"),
 "C15": dict(level="exploration", engine="e2-clock",
   technique="stateless exhaustive exploration with shuttle::current::clock() sampled after every operation; happens-before edges derived from the log by API-level rules; target-clock replay of every execution",
   text="On every execution of the generated programs of 7 families: every required happens-before edge (program order, spawn, join, scope, unlock->lock, rwlock, atomic write->read, send->recv, bounded back-edge, notify_all->wait, barrier, once, flag store->load) is reflected by clock dominance; two tasks are clock-ordered only if a chain of object accesses connects them; clocks never decrease; ReplayScheduler::set_target_clock on the recorded schedule never fails and reproduces everything in the target's happens-before past. Semaphore: release -> acquire by necessity and by conservation of causality (when every permit has been taken again each release is in the past of some acquisition).",
   note="Two-relation form (must / may) so documented over-approximations raise no alarm; for Once and mpsc the source of the edge is the sender's state before the operation (the operation itself may advance the clock after publishing).",
   design="DESIGN.md §4 C15"),
 "C02": dict(level="model_checking", engine="e2-all",
   technique="explicit-state BFS of strict sequentially-consistent reference models (all interleavings at operation granularity) vs. the set of outcomes over ALL schedules of the real runtime enumerated by the explorer-scheduler; outcome-set inclusion per program",
   text="For every generated program of the 7 primitive families (Mutex/RwLock, atomics, Condvar/Barrier/Once/park, mpsc, spawn/join/scope/TLS, BatchSemaphore, async tasks) the set of outcomes (per-thread results + ending) of the strict model must be contained in the set produced by the fully explored schedule tree: an outcome nobody produces is an interleaving the runtime cannot reach (a missing scheduling point). Missing outcomes are attributed to a recorded finding only if the model with exactly that operation fused to its predecessor has all its outcomes produced. Extra sets: gated park/unpark programs (every other task blocked, so no spurious wake-up can mask a lost order), every entry point of the int/bool/ptr atomics, and in the quick tier a stride sample beyond the 700 simplest programs of each family. Missing outcomes explained by the weakened model of a recorded deviation (F14) are attributed to it.",
   note="Trusted: strict reference models; judged only on fully explored trees; programs with JoinHandle::abort are excluded (abort timing is modelled loosely). Small-scope hypothesis.",
   design="DESIGN.md §4 C02"),
 "C03": dict(level="model_checking", engine="e2-all",
   technique="stateless exhaustive exploration + co-simulation; oracle restricted to the ending of every execution",
   text="For every execution of every program of the 7 families (lock cycles, lost notifications, closed channels, never-woken futures, detached tasks, parked threads, leaked guards, unjoined threads): a deadlock report with exactly the reported task ids must be an ending of a model state consistent with the whole log in which no task can progress (spurious wake-ups not counted) and an attached task is unfinished; otherwise the run must end normally with every attached task finished; a 20000-step horizon turns a hang into a failure.",
   note="Trusted: reference models (strict enabledness). Endings are judged for executions whose steps the model accepts.",
   design="DESIGN.md §4 C03"),
 "C08": dict(level="exploration", engine="e2-all+wrappers",
   technique="stateless exhaustive exploration with a contract checker at every scheduler call, incl. exhaustive 'scheduler returns None here' children; wrapper transparency by comparing complete choice trees",
   text="At every decision of every execution of the 7 families: runnable list non-empty, strictly ascending, only runnable/spuriously-wakeable tasks, contains every task the strict model can run, current_task = previously chosen task, is_yielding exactly after an explicit yield, only the chosen task's code runs between decisions; a second pass answers None at every decision of every execution (run must continue without failure); Metrics and UncontrolledNondeterminismCheck wrappers must expose the identical choice tree to the inner scheduler. The explorer itself records any scheduler call that follows its own None answer within one execution; transparency also for AnnotationScheduler and PortfolioRunner's stop wrapper, over a sample of generated programs.",
   note="Trusted: reference models for 'able to run'; decision stamps for 'no foreign code'. AnnotationScheduler needs the `annotation` feature and is not exercised.",
   design="DESIGN.md §4 C08"),
 "C09": dict(level="exploration", engine="sched",
   technique="exhaustive enumeration of abstract choice trees (all shapes up to depth/branching bounds, several labellings incl. path-dependent offered sets) driving the real DfsScheduler with synthetic Tasks; integration through the real runtime against the independent explorer",
   text="On every tree: unbounded DFS visits every leaf exactly once then returns None; every iteration bound 0..leaves+1 gives min(m,leaves) distinct leaves; every step cut gives exactly the distinct prefixes; same data stream in every execution. Quick: 1.97 M trees (all d<=3/b<=3, d<=2/b<=4, d<=4/b<=2); thorough adds all 1.13 G shapes of d<=5/b<=2. Real bodies: DfsScheduler/check_dfs leaf sets equal the explorer's.",
   note="Trusted: the tree enumerator; scheduler driven outside the runtime is cross-validated by replaying recorded runtime runs call for call.",
   design="DESIGN.md §4 C09"),
 "C10": dict(level="exploration", engine="sched",
   technique="exhaustive enumeration of a seed interval (2^16 quick / 2^22 thorough) x abstract programs and real bodies; exact counts for the distribution clause",
   text="For every seed of the interval: two instances give identical runs (Random and URW); every iteration's reported seed reproduces that iteration through new_from_seed(seed,1) incl. data draws; failing-seed message and SHUTTLE_RANDOM_SEED override checked in child processes; distribution: exact counts per offered-list length / position / history class within a fixed 6.5 sigma tolerance, every leaf of every d<=3/b<=3 tree visited. The distribution clause is evidence from an exhaustively enumerated interval, not a proof over 2^64 seeds.",
   note="Trusted: rand's choose/shuffle uniformity beyond the interval; tolerances fixed so verdicts are deterministic.",
   design="DESIGN.md §4 C10"),
 "C11": dict(level="model_checking", engine="sched",
   technique="reference PCT model (explicit priority order, change points) compared decision by decision with the real PctScheduler over an exhaustively enumerated seed interval and all small trees; exhaustive enumeration of the model (all n! orders x change-point sets) for the probability bound",
   text="Every iteration >= 2: change points distinct, in [1,max_steps), min(depth-1,max_steps-1) many; every decision equals the model's; priorities change only at creation / yield / change points demoting current; exactly max_iterations executions; same seed => same run. Bound: for 565 bugs of 6 programs the exact model probability >= 1/(n k^(d-1)); over the interval the real scheduler realises every model choice with frequency within tolerance.",
   note="Trusted: PctScheduler's Debug output as read-only snapshot (format drift = machinery error); the reference model.",
   design="DESIGN.md §4 C11"),
 "C12": dict(level="fault_enumeration", engine="c12",
   technique="exhaustive enumeration of run histories (failing kind x persistence mode x earlier runs x thread placement x scheduler) each executed in a fresh child process",
   text="2227 (63238 thorough) histories of <= 3-4 configured runs: 7 failing kinds (panic in main / spawned thread / future / while holding a guard, two deadlocks, FailAfter) x {None, Print, File(dir)} x earlier runs, same/other thread, portfolio runs: the caller gets the task's own payload or the condition message, a schedule is emitted exactly in the configured way (nothing with None), replaying it reproduces the failure, a portfolio fails iff a member does.",
   note="Trusted: stderr segmentation by marker lines; directory snapshots. 'Exactly one schedule' relaxed to 'at least one, in the configured place' (a panic while holding a contended guard prints a truncated and a complete schedule).",
   design="DESIGN.md §4 C12"),
 "C13": dict(level="exploration", engine="c13",
   technique="exhaustive configuration grid over bodies with step counts measured on every schedule by the explorer: n in [L-3,L+3] x {None,FailAfter,ContinueAfter} x every scheduler x budgets 0..5 x max_time {None,0}, each cell in a supervised child process",
   text="42648 (1.16 M thorough) cells: steps since the last reset never exceed n; above the bound FailAfter fails with the max-steps message and ContinueAfter abandons silently and goes on; below it the execution equals its unbounded twin; invocations = returned count = iteration budget.",
   note="L == n not judged; max_time=0 accepts count 0 or 1 with a sleeping body.",
   design="DESIGN.md §4 C13"),
 "C04": dict(level="model_checking", engine="e2-lock,e2-atomic",
   technique="stateless exhaustive exploration of the real primitives under an explorer plugged in as Shuttle's Scheduler + explicit-state BFS of a reference lock model + step-by-step co-simulation (trace conformance) of every execution",
   text="Every schedule of every generated program (<=3 threads, <=3-4 ops each over Mutex/RwLock lock/try/unlock incl. re-entrant tries) is executed against the real shuttle::sync primitives and co-simulated on a contract model (holder/readers/writer): each return value, each point where a task that could run is not offered, and each ending must be allowed by the model. Exhaustive within the stated program sizes. Also: every read-modify-write entry point of AtomicI8/U8/I64/Bool/Ptr raced on one variable (rmw set, soundness and completeness), RwLock poisoning (a panicking writer poisons, a panicking reader does not).",
   note="Trusted: the reference model (Appendix A of DESIGN.md), the explorer's determinism self-check, Shuttle's own Task::runnable() flags only for preemption counting. Small-scope hypothesis for program size.",
   design="DESIGN.md §4 C04"),
 "C05": dict(level="model_checking", engine="e2-sync",
   technique="stateless exhaustive exploration of real Condvar/Barrier/Once/park programs under the explorer-scheduler + explicit-state BFS of reference models + step-by-step co-simulation of every execution",
   text="Every schedule of every generated program over Condvar wait/wait_while/notify_one/notify_all (2-4 waiters/notifiers, racing notify_one, the 5-thread epoch scenario), Barrier (bounds 0-3, reuse, two barriers), Once (racing and nested call_once, is_completed), park/unpark (tokens, double unpark, spurious wake-ups), also inside thread::scope bodies, is run on the real primitives and co-simulated on contract models: a wait returns only after a matching notification, notify_one releases at most one present waiter, barrier groups/leader, exactly one initialiser, token is boolean; lost wake-ups show up as a model-enabled task that is not offered or as a deadlock the model does not have. Also: the same programs through wait_timeout(_while) / park_timeout / call_once_force (-alt sets), park/unpark mixed with barrier, condvar, join, scope end, mutex and blocking channel operations.",
   note="Trusted: reference models (Appendix A), explorer determinism self-check. No spurious Condvar wake-ups are modelled because the property says wait returns only after a notification. Small-scope hypothesis.",
   design="DESIGN.md §4 C05"),
 "C06": dict(level="model_checking", engine="e2-mpsc",
   technique="stateless exhaustive exploration of real mpsc programs under the explorer-scheduler + explicit-state BFS of a FIFO channel model + step-by-step co-simulation of every execution",
   text="Every schedule of every generated program (1-3 senders incl. main, one receiver, capacities unbounded/0/1/2, send/try_send/recv/try_recv, explicit drop of every endpoint at every position, recv inside scope bodies) on the real channels, co-simulated on a FIFO model with FIFO blocked-sender queue: every returned value/error, every blocking and every wake-up must be allowed by the model (exactly-once, order, capacity, rendezvous hand-off, drain-before-disconnect follow from the model's state invariants). Also: recv through recv_timeout / iter (-alt set) and park/unpark around blocking send / recv (mix set).",
   note="Trusted: the channel model (Appendix A); loose variant (blocked senders in any order) judges return values, strict (FIFO, Shuttle's documented discipline) judges which tasks must be runnable. Small-scope hypothesis.",
   design="DESIGN.md §4 C06"),
 "C07": dict(level="model_checking", engine="e2-thread",
   technique="stateless exhaustive exploration of real spawn/join/scope/thread-local programs under the explorer-scheduler + reference model co-simulation + life-cycle monitor over logged init/drop events",
   text="Every schedule of every generated program with nested spawns, joins in every order and by non-parents, unjoined threads, scopes (nested, with 1-2 scoped threads), named threads, thread::current(), and three thread-local keys whose destructors log, touch another key, or contain a scheduling point and touch themselves, plus a const-initialised key: closure runs once, join returns the closure's value after all of the child's destructors, scope end waits for scoped threads, per-thread instances, destruction exactly once in initialisation order, AccessError instead of resurrection, ids/names consistent. Also: ScopedJoinHandle::join inside the scope.",
   note="Trusted: the expected thread-local event sequence computed by the monitor from the program text; model for spawn/join/scope. Small-scope hypothesis.",
   design="DESIGN.md §4 C07"),
 "C16": dict(level="exploration", engine="c16",
   technique="bounded-exhaustive enumeration of Schedule values and of malformed strings against an independent reference decoder (enumeration of inputs, not sampling)",
   text="All step sequences over {Task(a),Task(b),Random} up to length 7 (11 thorough) for 9 id pairs at bit-width boundaries, 21 varint-boundary seeds x 128 boundary ids x 7 shapes, 12 patterns x every length 0..400 (1200), each in 6 strict printed forms and up to 8 re-formatted forms; every proper prefix per hex digit up to a bound, header digit substitutions, every wrong magic byte, width fields 0 / >64, length fields beyond the payload: round-trip must be exact; malformed input must give None and never panic/abort (decodes run in supervised child processes).",
   note="Trusted: the independent reference reader (refdec.rs), cross-checked against layout arithmetic; padding-only truncation is not required to be rejected (statement: 'cut short' = a needed bit is missing).",
   design="DESIGN.md §4 C16"),
 "C17": dict(level="model_checking", engine="e2-async",
   technique="stateless exhaustive exploration of real async programs (future::spawn / block_on / yield_now / JoinHandle await-abort-drop-is_finished / hand-written leaf futures) under the explorer-scheduler + explicit-state BFS of an executor model + step-by-step co-simulation + future-drop monitor",
   text="Every schedule of every generated program with 3 tasks (main under block_on): leaf futures that register the polling task's waker and are woken by another task, by themselves during poll (yield_now), or never; futures created and first polled in one task and awaited in another; nested block_on inside a task; JoinHandle awaited / aborted (before first poll, while pending, after completion, twice) / dropped (detach) / is_finished; nested spawns. Co-simulated on the executor model: a task able to progress is offered, a never-woken task is not; await yields the output exactly once or Cancelled iff the abort took effect, in which case the future was dropped before and performs no further step; detached tasks are cut off and never cause a deadlock report. Also: the same programs through spawn_local / AbortHandle::{abort, is_finished} (-alt set).",
   note="Trusted: executor model (Appendix A); abort timing is loose (cancellation may happen at any later poll, never inside a nested block_on). Small-scope hypothesis.",
   design="DESIGN.md §4 C17"),
 "C18": dict(level="model_checking", engine="e2-sem",
   technique="stateless exhaustive exploration of real BatchSemaphore programs under the explorer-scheduler + explicit-state BFS of a counter+queue model with permit ledger + step-by-step co-simulation; executions the reference model rejects are re-checked against a weakened model that encodes the two recorded findings",
   text="Every schedule of every generated program over acquire_blocking/try_acquire/release/close/available_permits and manually polled, awaited, cancelled and handed-over Acquire futures, permits 0-1 (0-3 thorough), batch sizes 1-2, both fairness modes, 2-3 tasks, on the real semaphore; co-simulated on the reference model (strict FIFO with grant in the releasing step / bag of waiters), whose ledger invariant avail+acquired+granted = initial+released is asserted in every state. Also: cancellation of a queued request with further requests queued behind it (with a scheduling point between joining and leaving the queue).",
   note="Trusted: the reference model (Appendix A) and, for the two known findings only, the weakened model that describes them precisely (so any other deviation is still a violation). Small-scope hypothesis.",
   design="DESIGN.md §4 C18"),
}

REASON_WIP = "check not built yet (work in progress; see DESIGN.md for the plan)"

def main():
    props=[json.loads(l) for l in open('/verif/properties.jsonl')]
    hooks_commits=[]
    try:
        out=subprocess.run(['git','-C','/repo','log','--format=%h %s'],capture_output=True,text=True).stdout
        hooks_commits=[l.split()[0] for l in out.splitlines() if l.split(' ',1)[1].startswith('verif-hooks:')]
    except Exception: pass
    checks=[]
    na=[]
    for p in props:
        i=p['id']
        if i in CLAIMED:
            c=CLAIMED[i]
            checks.append({
              "property_id": i,
              "quick_cmd": f"./check {i} quick",
              "thorough_cmd": f"./check {i} thorough",
              "evidence_file": f"/verif/evidence/{i}.json",
              "replay_cmd_template": f"./check {i} --replay {{path}}",
              "engine": c["engine"],
              "level_claimed": {"category": c["level"], "text": c["text"], "design_ref": c["design"]},
              "level_note": c["note"],
              "technique": c["technique"],
            })
        else:
            na.append({"property_id": i, "reason": REASON_WIP})
    m={"version":1,"setup_cmd":"./setup.sh",
     "hooks":{"guard":"verif-hooks","enable":"reserved name only: NO hook or instrumentation commit exists in /repo (source_commits is empty) — every check drives the public API of the crates in /repo's working tree, which the harness links by path; the only commits made to /repo are the unguarded 'fix:' commits listed in known_findings.json","baseline_off_cmd":"cd /repo && cargo nextest run --workspace --no-fail-fast --tool-config-file pb:/w/lib/nextest.toml --profile pb --test-threads 8 --offline","source_commits":hooks_commits,"add_only":True},
     "engines":[
       {"name":"vx","path":"/verif/harness/vx","serves_properties":["C01","C02","C03","C04","C05","C06","C07","C08","C14","C15","C17","C18"],"kind_free_text":"Rust lib+bin: explorer-as-Scheduler (stateless DFS of the runtime's choice tree, preemption-bounded variant), program IR + thread/async interpreters, reference models with explicit-state BFS and memoised NFA co-simulation, replay / isolation-pair / vector-clock drivers, worker-process sharding"},
       {"name":"vx-sched","path":"/verif/harness/sched","serves_properties":["C09","C10","C11"],"kind_free_text":"scheduler-automaton driver with synthetic Tasks over all abstract choice trees up to a bound, seed-interval enumerator, reference PCT model, real bodies under the built-in schedulers"},
       {"name":"vx-c12","path":"/verif/harness/c12","serves_properties":["C12"],"kind_free_text":"history enumerator: sequences of Shuttle runs (failure kind x persistence mode x scheduler) in forked children, emitted schedules replayed"},
       {"name":"vx-c13","path":"/verif/harness/c13","serves_properties":["C13"],"kind_free_text":"configuration grid (step bound kind x n x scheduler x iteration budget x time limit) over bodies whose step counts are measured by the explorer"},
       {"name":"vx-c16","path":"/verif/harness/c16","serves_properties":["C16"],"kind_free_text":"codec enumerator with an independent reference decoder: all schedules / all strings up to a bound, mutations of valid strings"},
       {"name":"vx-c19","path":"/verif/harness/c19","serves_properties":["C19"],"kind_free_text":"E2 families (built on vx) over the shuttle-tokio implementation crate"},
       {"name":"vx-c20","path":"/verif/harness/c20","serves_properties":["C20"],"kind_free_text":"E2 families (built on vx) over the parking_lot / dashmap wrappers, history enumeration for the deterministic collections, replay / isolation drivers for the rand and lazy_static wrappers"}],
     "checks":checks,
     "notes":"./check <id> quick|thorough rebuilds the harness against /repo's working tree, runs the engines in worker processes (16 shards), writes evidence/<id>.json and replays/<id>/*.json. Exit 0 held / 1 violation / 2 machinery error. known_findings.json lists recorded and fixed findings.",
     "not_applicable":na}
    json.dump(m,open('/verif/MANIFEST.json','w'),indent=1)
    print("claimed:",sorted(CLAIMED.keys()))
main()
