#!/bin/bash
# confirm_seed.sh <seed-id> <dir with patch.diff + demo.rs> [demo package] [demo test name]
# Confirms, in a scratch worktree outside /repo and /verif, that a seeded change
#  (1) compiles, (2) passes the repository's whole baseline suite, (3) makes its demonstration fail
#  while the demonstration passes without it.  Results go to /verif/seeded/<id>/confirm.log.
set -u
ID=$1; SRC=$2; PKG=${3:-shuttle}; TEST=${4:-seeded_demo}; DST=${5:-}
WT=/tmp/confirm-wt
OUT=/verif/seeded/$ID
mkdir -p $OUT
export CARGO_TARGET_DIR=/tmp/confirm-target CARGO_NET_OFFLINE=true
git -C /repo worktree remove --force $WT >/dev/null 2>&1
git -C /repo worktree add --detach $WT HEAD >/dev/null 2>&1 || { echo "cannot create worktree"; exit 2; }
cd $WT
{
echo "== seed $ID  base $(git rev-parse --short HEAD)  $(date -u +%FT%TZ)"
DEMO_DST=$DST
[ -z "$DEMO_DST" ] && DEMO_DST=$(grep -m1 -o 'shuttle/tests/[a-z_]*\.rs\|wrappers/[A-Za-z0-9_/.-]*tests/[A-Za-z0-9_.-]*\.rs' $SRC/demo.rs | head -1)
[ -z "$DEMO_DST" ] && DEMO_DST=shuttle/tests/seeded_demo.rs
mkdir -p $(dirname $DEMO_DST); cp $SRC/demo.rs $DEMO_DST
echo "-- demo WITHOUT the change ($DEMO_DST)"
cargo test --offline -p $PKG --test $TEST 2>&1 | grep -E "^test result|^test .* (ok|FAILED)|error(\[|:)" | head -20
git apply $SRC/patch.diff || { echo "PATCH DOES NOT APPLY"; exit 1; }
echo "-- build WITH the change"
cargo build --offline --workspace 2>&1 | tail -2
echo "-- demo WITH the change"
cargo test --offline -p $PKG --test $TEST 2>&1 | grep -E "^test result|^test .* (ok|FAILED)|error(\[|:)" | head -20
rm -f $DEMO_DST
echo "-- baseline suite WITH the change"
cargo nextest run --workspace --no-fail-fast --tool-config-file pb:/w/lib/nextest.toml --profile pb --test-threads 8 --offline 2>&1 | grep -E "^\s+(FAIL|TIMEOUT|SIGABRT|SIGSEGV)|Summary" | sort | uniq | head -40
echo "== done $(date -u +%FT%TZ)"
} > $OUT/confirm.log 2>&1
cd /
git -C /repo worktree remove --force $WT >/dev/null 2>&1
