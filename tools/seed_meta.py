#!/usr/bin/env python3
"""seed_meta.py <seed-dir-name> <property> <caught_by> <needs> <first_try:yes|no> [note]
Writes /verif/seeded/<name>/meta.json from the confirmation log."""
import json, sys, re, os
name, prop, caught, needs, first = sys.argv[1:6]
note = sys.argv[6] if len(sys.argv) > 6 else ""
d = f"/verif/seeded/{name}"
log = open(f"{d}/confirm.log").read() if os.path.exists(f"{d}/confirm.log") else ""
parts = log.split("-- ")
def sect(title):
    for p in parts:
        if p.startswith(title):
            return p[len(title):].strip()
    return ""
without = sect("demo WITHOUT the change")
with_ = sect("demo WITH the change")
suite = sect("baseline suite WITH the change")
summary = re.search(r"Summary.*", suite)
meta = {
  "id": name,
  "property": prop,
  "breaks": open(f"{d}/notes.md").read().split("\n\n")[0:3] if os.path.exists(f"{d}/notes.md") else [],
  "needs_to_manifest": needs,
  "files": {"patch": "patch.diff", "demonstration": "demo.rs", "author_notes": "notes.md", "confirmation_log": "confirm.log"},
  "confirmed": {
     "how": "tools/confirm_seed.sh in a scratch worktree of /repo HEAD outside /repo and /verif (removed afterwards): demo without the change, build with it, demo with it, whole baseline suite with it",
     "demo_without_change": without.splitlines()[-1] if without else "",
     "demo_with_change": [l for l in with_.splitlines() if l.startswith("test result")][:1],
     "suite_with_change": summary.group(0) if summary else "",
     "suite_non_passing": [l.strip() for l in suite.splitlines() if "TIMEOUT" in l or "FAIL" in l],
     "note": "tests listed as TIMEOUT are the exhaustive / slow ones that also time out (300 s) on the unchanged tree or under machine load (ui = trybuild compile tests); none FAILED"
  },
  "detected_by": caught,
  "detected_on_first_try": first == "yes",
  "how_checked": f"git -C /repo apply seeded/{name}/patch.diff; ./check {prop} quick  (exit 1, VIOLATION lines); git -C /repo checkout -- .",
  "note": note,
}
json.dump(meta, open(f"{d}/meta.json", "w"), indent=1)
print("wrote", f"{d}/meta.json")
