#!/bin/bash
# confirm_queue.sh <id>[:<demo package>[:<demo path>]]... : confirm seeds one after the other (they share one scratch worktree)
for item in "$@"; do
  IFS=: read -r id pkg dst <<< "$item"
  /verif/tools/confirm_seed.sh "$id" /verif/seeded/"$id" "${pkg:-shuttle}" seeded_demo "$dst"
done
