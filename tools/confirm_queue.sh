#!/bin/bash
# confirm_queue.sh <id>[:<demo package>]... : confirm seeds one after the other (they share one scratch worktree)
for item in "$@"; do
  id=${item%%:*}; pkg=shuttle; [ "$item" != "$id" ] && pkg=${item#*:}
  /verif/tools/confirm_seed.sh "$id" /verif/seeded/"$id" "$pkg" seeded_demo
done
