#!/bin/bash
# confirm_queue.sh <id>... : confirm seeds one after the other (they share one scratch worktree)
for id in "$@"; do
  while pgrep -f "confirm_seed.sh" >/dev/null; do sleep 20; done
  /verif/tools/confirm_seed.sh "$id" /verif/seeded/"$id" shuttle seeded_demo
done
